"""Driver core: build the harness from /repo's working tree, run scenarios against
the real code, validate the recorded traces with TLC, model-check the bounded
design models, classify results, write evidence.

Exit codes of a check: 0 property held on everything explored; 1 a real-code
execution violates the property (VIOLATION line printed); 2 undecided (harness
did not build, TLC failed or timed out, a driver died).  Only behaviour of the
real code produces exit 1."""
import hashlib
import json
import os
import re
import shutil
import subprocess
import sys
import tempfile
import time

VERIF = os.path.dirname(os.path.dirname(os.path.abspath(__file__)))
REPO = os.environ.get("VERIF_REPO", "/repo")
SPEC = os.path.join(VERIF, "spec")
# (the selftest redirects these to scratch copies so that it never touches /repo, the evidence or the replays)
HARNESS = os.environ.get("VERIF_HARNESS", os.path.join(VERIF, "harness"))
BIN = os.environ.get("VERIF_BIN", os.path.join(VERIF, "bin"))
EVIDENCE = os.environ.get("VERIF_EVIDENCE", os.path.join(VERIF, "evidence"))
REPLAYS = os.environ.get("VERIF_REPLAYS", os.path.join(VERIF, "replays"))
KNOWN = os.path.join(VERIF, "known-findings.txt")

GOENV = dict(os.environ, GOFLAGS="-mod=mod", GOPROXY="off", GOSUMDB="off", GOTOOLCHAIN="local",
             CGO_ENABLED=os.environ.get("CGO_ENABLED", "1"))


class Undecided(Exception):
    pass


def log(*a):
    print(*a, file=sys.stderr, flush=True)


def scratch(prefix="verif-"):
    return tempfile.mkdtemp(prefix=prefix)


# --------------------------------------------------------------------------
# harness

def build_harness(race=False):
    os.makedirs(BIN, exist_ok=True)
    out = os.path.join(BIN, "harness-race.test" if race else "harness.test")
    cmd = ["go", "test", "-c", "-tags", "verif", "-vet=off", "-o", out]
    if race:
        cmd.insert(3, "-race")
    cmd.append(".")
    t0 = time.time()
    p = subprocess.run(cmd, cwd=HARNESS, env=GOENV, capture_output=True, text=True)
    if p.returncode != 0:
        raise Undecided("harness does not build against /repo's working tree:\n" + p.stdout + p.stderr)
    log(f"[build] harness{' (race)' if race else ''} built in {time.time()-t0:.1f}s")
    return out


ENGINE_EVENTS = ("scen.begin,run.begin,run.end,scen.end,inv.begin,inv.end,draw,call,ctx,cinv.begin,cinv.end,"
                 "tb.logf,tb.errorf,tb.failnow,tb.fail,h.phase,h.once.begin,h.once.end,h.docheck.ret,h.save,fs,"
                 "h.failfiles,h.ff.load,h.shrink.begin,h.shrink.end,h.accept,recovered,timing,h.action.none,sm.inv.begin,sm.inv.end,harness.done")


def run_harness(binary, scenarios, out_path, events, mode="scenarios", timeout=600, extra=(), env=None, cwd=None):
    """Run the harness on a list of scenario dicts; returns number of trace lines."""
    wd = cwd or os.path.dirname(out_path)
    scen_path = out_path + ".scenarios"
    with open(scen_path, "w") as f:
        for s in scenarios:
            f.write(json.dumps(s) + "\n")
    cmd = [binary, "-test.run", "^TestVerif$", "-test.timeout", "0", "-verif.in", scen_path, "-verif.out", out_path,
           "-verif.mode", mode]
    if events:
        cmd += ["-verif.events", events]
    cmd += list(extra)
    e = dict(GOENV)
    if env:
        e.update(env)
    try:
        p = subprocess.run(cmd, cwd=wd, env=e, capture_output=True, text=True, timeout=timeout)
    except subprocess.TimeoutExpired:
        raise Undecided(f"harness timed out after {timeout}s")
    done = False
    n = 0
    if os.path.exists(out_path):
        with open(out_path, "rb") as f:
            last = b""
            for line in f:
                n += 1
                last = line
            done = b'"harness.done"' in last
    if not done:
        both = p.stdout + p.stderr
        i = both.find("fatal error:")
        head = both[i:i + 4000] if i >= 0 else both[:2000]
        raise Undecided("harness did not complete (driver died?):\n" + head + "\n...\n" + both[-3000:])
    return n, p


def split_scenarios(trace_path):
    """Yield (scenario id, [lines]) for each scenario in a trace file; lines outside scenarios go to id None."""
    cur_id, cur = None, []
    with open(trace_path) as f:
        for line in f:
            if '"ev":"scen.begin"' in line:
                if cur:
                    yield cur_id, cur
                cur_id, cur = json.loads(line)["id"], [line]
            else:
                cur.append(line)
    if cur:
        yield cur_id, cur


# --------------------------------------------------------------------------
# TLC

def _tlc_cmd(module, cfg, workers, metadir, extra=()):
    return ["tlc", "-workers", str(workers), "-metadir", metadir, "-config", cfg, *extra, module]


RE_STATES = re.compile(r"(\d+) states generated, (\d+) distinct states found, (\d+) states left on queue")


def run_tlc(module, cfg_text, files=None, workers=1, timeout=600, extra=(), java_opts=None):
    """Run TLC in a scratch copy of the spec directory.  files: {name: source path} copied/linked in."""
    wd = scratch("verif-tlc-")
    try:
        for fn in os.listdir(SPEC):
            if fn.endswith(".tla"):
                shutil.copy(os.path.join(SPEC, fn), wd)
        for name, src in (files or {}).items():
            dst = os.path.join(wd, name)
            try:
                os.symlink(src, dst)
            except OSError:
                shutil.copy(src, dst)
        with open(os.path.join(wd, "run.cfg"), "w") as f:
            f.write(cfg_text)
        env = dict(os.environ)
        if java_opts:
            env["JAVA_TOOL_OPTIONS"] = java_opts
        t0 = time.time()
        try:
            p = subprocess.run(_tlc_cmd(module + ".tla", "run.cfg", workers, os.path.join(wd, "meta"), extra),
                               cwd=wd, env=env, capture_output=True, text=True, timeout=timeout)
        except subprocess.TimeoutExpired:
            subprocess.run(["pkill", "-f", "tlc2.TL[C]"], capture_output=True)
            raise Undecided(f"TLC timed out after {timeout}s on {module}")
        out = p.stdout + p.stderr
        res = {"rc": p.returncode, "out": out, "wall": time.time() - t0, "generated": 0, "distinct": 0}
        m = None
        for m in RE_STATES.finditer(out):
            pass
        if m:
            res["generated"], res["distinct"] = int(m.group(1)), int(m.group(2))
        return res
    finally:
        shutil.rmtree(wd, ignore_errors=True)


def read_cfg(name):
    with open(os.path.join(SPEC, name)) as f:
        return f.read()


RE_VIOLATED = re.compile(r'<<\s*"VIOLATED",\s*"([^"]*)",\s*\{([^}]*)\},\s*(\d+)\s*>>', re.S)
RE_REJECT = re.compile(r'<<\s*"TRACE_REJECTED_AT",\s*(\d+),\s*"([^"]*)",\s*(\d+)\s*>>', re.S)
RE_ACCEPT = re.compile(r'<<"TRACE_ACCEPTED", (\d+)>>')
RE_BINDING = re.compile(r'<<\s*"BINDING_LOST",\s*\{([^}]*)\}\s*>>', re.S)


def parse_set(s):
    return sorted(x.strip().strip('"') for x in s.split(",") if x.strip())


MAX_TRACE_LINES = 150000


def validate_trace(module, cfg_text, trace_path, timeout=900):
    """Validate a concatenated trace file in one TLC run.  The trace specification judges every
    scenario at its scen.end event and prints one VIOLATED line per violating scenario, then goes on,
    so every violating scenario is reported and the rest of the file is still examined.
    Returns dict(violations=[{scenario, names, line}], binding_lost=[...], lines, scenarios, tlc_states)."""
    scen = list(split_scenarios(trace_path))
    total = sum(len(ls) for _, ls in scen)
    if total > MAX_TRACE_LINES and len(scen) > 1:
        # TLC holds the whole trace in memory: validate an oversized file piecewise, cut at scenario boundaries
        parts, cur, n = [], [], 0
        for sid, ls in scen:
            if cur and n + len(ls) > MAX_TRACE_LINES:
                parts.append(cur)
                cur, n = [], 0
            cur.append(ls)
            n += len(ls)
        if cur:
            parts.append(cur)
        tot = {"violations": [], "binding_lost": set(), "scenarios": 0, "lines": 0, "tlc_states": 0, "rounds": 0, "wall": 0.0}
        for k, part in enumerate(parts):
            pp = "%s.part%d" % (trace_path, k)
            with open(pp, "w") as f:
                for ls in part:
                    f.writelines(ls)
            try:
                r = validate_trace(module, cfg_text, pp, timeout)
            finally:
                os.unlink(pp)
            tot["violations"] += r["violations"]
            tot["binding_lost"] |= set(r["binding_lost"])
            for key in ("scenarios", "lines", "tlc_states", "rounds", "wall"):
                tot[key] += r[key]
        tot["binding_lost"] = sorted(tot["binding_lost"])
        return tot
    ids = [i for i, _ in scen if i is not None]
    res = run_tlc(module, cfg_text, files={"trace.ndjson": trace_path}, workers=1, timeout=timeout, java_opts="-Xss64m -Xmx6g")
    out = res["out"]
    violations = [{"scenario": m.group(1), "names": parse_set(m.group(2)), "line": int(m.group(3))}
                  for m in RE_VIOLATED.finditer(out)]
    binding = set()
    for m in RE_BINDING.finditer(out):
        binding.update(parse_set(m.group(1)))
    if not RE_ACCEPT.search(out):
        mr = RE_REJECT.search(out)
        if mr:
            raise Undecided(f"trace not consumable by {module} at line {mr.group(1)} (event {mr.group(2)}): binding lost\n" + out[-3000:])
        errs = "\n".join(x for x in out.splitlines() if x.startswith("Error") or "line " in x and "col " in x)[:3000]
        raise Undecided(f"TLC failed on {module}:\n" + errs + "\n...\n" + out[-1500:])
    return {"violations": violations, "binding_lost": sorted(binding), "scenarios": len(ids),
            "lines": sum(len(ls) for _, ls in scen), "tlc_states": res["distinct"], "rounds": 1, "wall": res["wall"]}


MC_CACHE = os.path.join(VERIF, ".cache", "mc")


def _mc_key(module, cfg_text):
    h = hashlib.sha256()
    for fn in sorted(os.listdir(SPEC)):
        if fn.endswith(".tla"):
            h.update(fn.encode())
            with open(os.path.join(SPEC, fn), "rb") as f:
                h.update(f.read())
    h.update(module.encode())
    h.update(cfg_text.encode())
    return h.hexdigest()[:32]


def model_check(module, cfg_text, workers=8, timeout=1800, expect_violation=False, extra=()):
    """Exhaustive check of a bounded design model.  Returns dict(states, distinct, ok, violated).
    A design model does not depend on /repo: the result of a finished run is remembered under the hash of every module's text
    and the configuration (/verif/.cache/mc, not committed), so that the checks of one family do not repeat the same exploration."""
    key = _mc_key(module, cfg_text)
    cpath = os.path.join(MC_CACHE, key + ".json")
    if os.path.exists(cpath) and not os.environ.get("VERIF_NO_MC_CACHE"):
        try:
            with open(cpath) as f:
                c = json.load(f)
            c["cached"] = True
            return c
        except (OSError, ValueError):
            pass
    res = run_tlc(module, cfg_text, workers=workers, timeout=timeout, extra=extra, java_opts="-Xss64m")
    out = res["out"]
    violated = re.findall(r"Error: Invariant (\w+) is violated", out) + re.findall(r"Error: Temporal propert(?:ies were|y \w+ was) violated", out)
    finished = "Model checking completed. No error has been found." in out
    if not finished and not violated:
        raise Undecided(f"TLC failed on design model {module}:\n" + out[-6000:])
    ret = {"generated": res["generated"], "distinct": res["distinct"], "ok": finished, "violated": violated,
           "wall": res["wall"], "out": out[-4000:], "cached": False}
    try:
        os.makedirs(MC_CACHE, exist_ok=True)
        tmp = cpath + ".%d.tmp" % os.getpid()
        with open(tmp, "w") as f:
            json.dump(ret, f)
        os.replace(tmp, cpath)
    except OSError:
        pass
    return ret


# --------------------------------------------------------------------------
# known findings

def load_known():
    """finding: property=<id> sig=<regex over 'scenario|names'> -- text"""
    out = []
    if not os.path.exists(KNOWN):
        return out
    with open(KNOWN) as f:
        for line in f:
            line = line.strip()
            if not line.startswith("finding:"):
                continue
            m = re.match(r"finding:\s+property=(\S+)\s+sig=(\S+)\s+--\s+(.*)$", line)
            if m:
                out.append({"property": m.group(1), "sig": re.compile(m.group(2)), "text": m.group(3)})
    return out


def classify(pid, violations):
    """Split violations into (known, new).  A violation is identified by 'scenario|name,name'."""
    known_defs = [k for k in load_known() if k["property"] == pid]
    known, new = [], []
    for v in violations:
        sig = f"{v['scenario']}|{','.join(v['names'])}"
        hit = next((k for k in known_defs if k["sig"].search(sig)), None)
        (known if hit else new).append(dict(v, finding=hit["text"] if hit else None))
    return known, new


# --------------------------------------------------------------------------
# evidence / replay

def write_replay(pid, scenario, violation):
    os.makedirs(REPLAYS, exist_ok=True)
    sid = re.sub(r"[^A-Za-z0-9_.-]", "_", str(violation.get("scenario", "x")))[:80]
    path = os.path.join(REPLAYS, f"{pid}-{sid}.json")
    with open(path, "w") as f:
        json.dump({"property": pid, "violation": violation, "scenario": scenario}, f, indent=1)
    return path


def write_evidence(pid, tier, seed, level, coverage, wall, violations, assumptions):
    os.makedirs(EVIDENCE, exist_ok=True)
    ev = {"property_id": pid, "tier": tier, "seed": int(seed), "level": level, "coverage": coverage,
          "assumptions": assumptions, "wall_s": round(wall, 2), "violations": int(violations)}
    tmp = os.path.join(EVIDENCE, f".{pid}.json.tmp")
    with open(tmp, "w") as f:
        json.dump(ev, f, indent=1)
    os.replace(tmp, os.path.join(EVIDENCE, f"{pid}.json"))


def digest(obj):
    return hashlib.sha1(json.dumps(obj, sort_keys=True).encode()).hexdigest()[:12]
