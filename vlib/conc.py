"""C14 / C15: concurrency.  Gated schedule replay + ungated race-detector runs; the
race detector's reports are appended to the trace as `race` events (syntactic translation)."""
import json
import os
import random
import re
import shutil
import time

from . import core, props
from .scen import g, draw, op, iff, scenario, IntRange

CONC_CFG = props.INV_CFG
CONC_EVENTS = ("hang,scen.begin,scen.end,run.begin,run.end,h.once.begin,h.once.end,inv.begin,inv.end,ctx,call,failed.read,cleanup.reg,cleanup.run,"
               "solo,shared,harness.done")
CONC_MC = [("Conc", "ConcMC.cfg", "hold", ("quick", "thorough")),
           ("Conc", "ConcMC_broken_fail.cfg", "violate", ("quick", "thorough")),
           ("Conc", "ConcMC_broken_ctx.cfg", "violate", ("quick", "thorough")),
           ("Conc", "ConcMC_broken_reg.cfg", "violate", ("quick", "thorough")),
           ("Conc", "ConcMC_late.cfg", "hold", ("quick", "thorough")),           # goroutines still registering cleanups while cleanup() pops
           ("Conc", "ConcMC_late_broken.cfg", "violate", ("quick", "thorough")),
           # a goroutine asks for the context for the first time while the function returns: the flag is looked at again under the lock (repair 77ef44e)
           ("Conc", "ConcMC_latectx.cfg", "hold", ("quick", "thorough")),
           ("Conc", "ConcMC_latectx_pinned.cfg", "violate", ("quick", "thorough"))]

METHODS = {
    "errorf": lambda: op("errorf", text="g"), "fail": lambda: op("fail"), "failed": lambda: op("failed"), "ctx": lambda: op("ctx", text="g"),
    "cleanup": lambda: op("cleanup", body=[]), "log": lambda: op("logf", text="from goroutine"), "helper": lambda: op("helper"),
    "name": lambda: op("name"), "error": lambda: op("error", text="g"),
}


def c14_scenarios(tier, seed):
    rng = random.Random(seed)
    out = []
    base = {"checks": 4, "nofailfile": "true", "shrinktime": "0s"}
    reps = 6 if tier == "quick" else 40
    # gated: goroutines are held at a gate of rapid until all have arrived, then released together
    gated = [("ctx.miss", "ctx"), ("ctx.locked", "ctx"), ("reg.locked", "cleanup"), ("fail.locked", "errorf"), ("failed.rlocked", "failed"),
             ("fail.locked", "fail"), ("ctx.miss", "ctx+cleanup"), ("reg.locked", "cleanup+errorf")]
    for i in range(reps):
        for point, ms in gated:
            n = rng.choice([2, 3, 4])
            body = [METHODS[m]() for m in ms.split("+")]
            # (the test goroutine goes on drawing afterwards, also from a Custom generator: the goroutines' failure must still be there at the end)
            prop = {"body": [op("go", n=n, val=point, body=body), op("ctx", text="main"), op("cleanup", body=[op("ctx", text="in-cleanup")]),
                             op("failed"), draw(g("Bool"), "b")] + ([draw(g("Custom", elem=g("Int8"), body=[draw(g("Bool"), "cb")]), "c")] if i % 2 == 0 else [])}
            out.append(scenario("c14-gated-%s-%s-%d" % (point, ms, i), prop, dict(base, seed=rng.randrange(1, 1 << 64), v=rng.choice(["true", "false"])),
                                tag={"gate": point, "methods": ms, "goroutines": n}))
            # main goroutine first / not at all before the goroutines
            prop2 = {"body": [op("ctx", text="main-first") if i % 2 else op("helper"), op("go", n=n, val=point, body=body), draw(g("Bool"), "b")]}
            out.append(scenario("c14-gated2-%s-%s-%d" % (point, ms, i), prop2, dict(base, seed=rng.randrange(1, 1 << 64)),
                                tag={"gate": point, "methods": ms, "goroutines": n}))
    # the test case before skipped from its last-run cleanup function: the goroutines of this one still get one and the same live context
    for i in range(3 if tier == "quick" else 20):
        n = rng.choice([2, 3, 4])
        prop = {"keyed": True, "cases": {"1": [op("cleanup", body=[op("skip")]), draw(g("Bool"), "b")], "3": [op("cleanup", body=[op("skip")]), draw(g("Bool"), "b")]},
                "default": [op("go", n=n, val="ctx.miss" if i % 2 else "", body=[op("ctx", text="g"), op("helper")]), op("ctx", text="main"), draw(g("Bool"), "b")]}
        out.append(scenario("c14-after-skipping-cleanup-%d" % i, prop, dict(base, seed=rng.randrange(1, 1 << 64), checks=5),
                            tag={"methods": "ctx after a skipping cleanup", "goroutines": n}))
    # a Custom generator function starts workers that fail (non-fatally) only after the function has returned; its cleanup joins them:
    # a failure signalled from any goroutine on the T the function was given falsifies the test case
    for i in range(3 if tier == "quick" else 20):
        cbody = [op("goasync", n=rng.choice([1, 2, 3]), body=[op("sleep", ms=15), op("errorf", text="worker")]), op("cleanup", body=[op("join")]), draw(g("Bool"), "cb")]
        prop = {"body": [draw(g("Custom", elem=g("Int8"), body=cbody, fresh=True), "c"), draw(g("Bool"), "b")]}
        out.append(scenario("c14-custom-workers-%d" % i, prop, dict(base, seed=rng.randrange(1, 1 << 64), checks=3),
                            tag={"methods": "errorf from workers of a Custom function", "goroutines": 3}))
    # the property's own goroutine fails fatally while goroutines it started are still reporting non-fatal failures (joined by a cleanup)
    for i in range(3 if tier == "quick" else 20):
        kind = ["fatalf", "failnow", "fatal"][i % 3]
        prop = {"body": [op("cleanup", body=[op("join")]), op("goasync", n=4, text="quiet", ms=200 if tier == "quick" else 2000, body=[METHODS[rng.choice(["errorf", "fail", "error"])]()]),
                         draw(g("Bool"), "b"), op(kind, site=1)]}
        out.append(scenario("c14-fatal-while-errorf-%d" % i, prop, dict(base, seed=rng.randrange(1, 1 << 64), checks=3),
                            tag={"methods": kind + " vs errorf from goroutines", "goroutines": 4}))
    # workers that keep asking for the context while the test case ends and its cleanups run (joined by the first-registered cleanup):
    # whatever they are handed is cancelled by the time the next test case begins
    for i in range(3 if tier == "quick" else 20):
        prop = {"body": [op("cleanup", body=[op("join")]), op("ctx", text="main"), op("goasync", n=6, ms=15, body=[op("ctx", text="g", val="changes")]), draw(g("Bool"), "b")]}
        out.append(scenario("c14-ctx-during-cleanup-%d" % i, prop, dict(base, seed=rng.randrange(1, 1 << 64), checks=400 if tier == "quick" else 3000),
                            tag={"methods": "Context() while cleanup() runs", "goroutines": 6}))
    # the interleaving ConcMC_latectx singles out: a goroutine that is the first to ask for the context has seen "not cleaning up" and is held at
    # rapid's gate before the slow path until the engine pops the first cleanup (which joins it, then looks at the context itself)
    for i in range(3 if tier == "quick" else 30):
        prop = {"body": [op("cleanup", body=[op("join"), op("ctx", text="in-cleanup")]), op("hold", text="ctx.checked", val="cleanup.pop"),
                         op("goasync", n=1, body=[op("ctx", text="g")]), op("sleep", ms=3), draw(g("Bool"), "b")]}
        out.append(scenario("c14-ctx-first-asked-at-return-%d" % i, prop, dict(base, seed=rng.randrange(1, 1 << 64), checks=5),
                            tag={"methods": "Context() first called while the function returns", "goroutines": 1, "gate": "ctx.checked"}))
    # goroutines that are still registering cleanups while the engine already runs the test case's cleanups
    for i in range(reps):
        prop = {"body": [op("cleanup", body=[op("join")]), op("goasync", n=rng.choice([4, 8]), ms=rng.choice([50, 150]), body=[op("cleanup", body=[])]),
                         draw(g("Bool"), "b")]}
        out.append(scenario("c14-late-cleanups-%d" % i, prop, dict(base, seed=rng.randrange(1, 1 << 64), checks=3), tag={"methods": "cleanup during cleanup", "goroutines": 8}))
    # a state machine running while goroutines call write-locking methods all the time (lock-order / re-entrancy mistakes deadlock here)
    for i in range(max(2, reps // 2)):
        prop = {"body": [op("goasync", n=4, text="quiet", ms=4000, body=[op("cleanup", body=[]), op("failed"), op("ctx", text="g")]),
                         op("repeat", actions={"a": [draw(g("Bool"), "b")], "b": [draw(g("Byte"), "c")]}, inv=[op("failed")]), op("join")]}
        out.append(scenario("c14-repeat-writers-%d" % i, prop, dict(base, seed=rng.randrange(1, 1 << 64), checks=20, steps=200),
                            tag={"methods": "Repeat + concurrent writers", "goroutines": 4}))
    # ungated, unrecorded inside the goroutines (recording would add happens-before edges): every pair of methods
    names = sorted(METHODS)
    pairs = [(a, b) for i, a in enumerate(names) for b in names[i:]]
    for a, b in pairs:
        for v in (("true", "false") if tier == "thorough" else (rng.choice(["true", "false"]),)):
            prop = {"body": [op("go", n=8, text="quiet", ms=30 if tier == "quick" else 300, body=[METHODS[a](), METHODS[b]()]), draw(g("Bool"), "b")]}
            out.append(scenario("c14-race-%s-%s-%s" % (a, b, v), prop, dict(base, seed=rng.randrange(1, 1 << 64), v=v, checks=3),
                                tag={"methods": a + "+" + b, "goroutines": 8, "verbose": v}))
        # the same on a *T nothing has been done with yet (fuzz target, minimization attempts and final replay of a failing property),
        # also with -rapid.log (rapid's own eager logger)
        lg = rng.choice(["true", "false"])
        body = [op("go", n=8, text="quiet", ms=10 if tier == "quick" else 100, body=[METHODS[a](), METHODS[b]()]), draw(g("Uint8"), "x", "x")]
        out.append(scenario("c14-race-fresh-%s-%s" % (a, b), {"body": body + [iff("x", "ge", 3, [op("errorf", text="nf")])]},
                            dict(base, seed=rng.randrange(1, 1 << 64), v=rng.choice(["true", "false"]), log=lg, checks=5, shrinktime="30s"),
                            runs=[{"entry": "fuzz", "fuzz": ["", "00" * 16, "ff" * 16]}, {"entry": "check"}],
                            tag={"methods": a + "+" + b, "goroutines": 8, "verbose": lg, "fresh": True}))
    return out


RE_RACE_SPLIT = re.compile(r"^==================$", re.M)


def parse_race_logs(wd):
    """race detector reports -> events.  A report is 'in rapid' if the first non-runtime frame of both
    accesses is a function of pgregory.net/rapid defined in /repo (not a test file)."""
    evs = []
    for fn in sorted(os.listdir(wd)):
        if not fn.startswith("race."):
            continue
        text = open(os.path.join(wd, fn), errors="replace").read()
        for block in RE_RACE_SPLIT.split(text):
            if "DATA RACE" not in block:
                continue
            stacks = re.split(r"\n\n", block.strip())
            tops = []
            for st in stacks[:2]:
                frames = re.findall(r"^\s+([\w./()*\[\]\-·]+)\(\)\n\s+(\S+?):(\d+)", st, re.M)
                top = next(((f, p) for f, p, _ in frames if not f.startswith("runtime.") and not f.startswith("sync.") and not f.startswith("sync/atomic")), ("?", "?"))
                tops.append(top)
            rapid = len(tops) == 2 and all(f.startswith("pgregory.net/rapid.") and p.startswith(core.REPO + "/") and not p.endswith("_test.go") for f, p in tops)
            evs.append({"ev": "race", "rapid": rapid, "tops": ["%s (%s)" % (f, os.path.basename(p)) for f, p in tops]})
    return evs


def append_races(paths, wd, extra=()):
    races = parse_race_logs(wd) + list(extra)
    uniq = {}
    for r in races:
        uniq.setdefault(tuple(sorted(r["tops"])), r)
    races = list(uniq.values())
    p = os.path.join(wd, "races.ndjson")
    with open(p, "w") as f:
        f.write(json.dumps({"ev": "scen.begin", "seq": 1, "id": "race-detector-reports"}) + "\n")
        for i, r in enumerate(races):
            f.write(json.dumps(dict(r, seq=i + 2)) + "\n")
        f.write(json.dumps({"ev": "scen.end", "seq": len(races) + 2, "id": "race-detector-reports"}) + "\n")
    return paths + [p], races


def rule_conc(evs):
    gs = {e.get("g") for e in evs if e["ev"] in ("call", "ctx", "cleanup.reg", "failed.read") and e.get("g")}
    regs = sum(1 for e in evs if e["ev"] == "cleanup.reg")
    if not gs and regs == 0:
        return None
    return f"{len(gs)} recorded goroutines, {regs} cleanups registered, {sum(1 for e in evs if e['ev']=='ctx')} context samples"


def run_c14(tier, seed, replay, keep):
    t0 = time.time()
    if replay:
        scenarios = [json.load(open(replay))["scenario"]]
    else:
        scenarios = c14_scenarios(tier, seed)
    by_id = {s["id"]: s for s in scenarios}
    binary = core.build_harness(race=True)
    wd = core.scratch("verif-c14-")
    try:
        env = {"GORACE": "log_path=%s/race halt_on_error=0" % wd}
        paths = props.run_scenarios_parallel(binary, scenarios, CONC_EVENTS, wd, env=env, par=16, extra=("-verif.hang", "25s"))
        t1 = time.time()
        core.log(f"[C14] {len(scenarios)} scenarios executed on the real code (race detector on) in {t1-t0:.1f}s")
        paths, races = append_races(paths, wd)
        if keep:
            shutil.copytree(wd, "/tmp/keep-C14", dirs_exist_ok=True)
        val = props.validate_parallel("ConcTrace", CONC_CFG % "C14", paths)
        core.log(f"[C14] {val['lines']} events validated against ConcTrace in {time.time()-t1:.1f}s, violations: {len(val['violations'])}")
        cov = props.scan_traces(paths[:-1], rule_conc)
    finally:
        shutil.rmtree(wd, ignore_errors=True)
    return finish("C14", tier, seed, t0, val, cov, by_id, races, CONC_MC, replay,
                  "one case = one Check whose property starts 2..8 goroutines calling non-drawing methods of *T: either held at a gate inside rapid "
                  "(ctx.miss, ctx.locked, reg.locked, fail.locked, failed.rlocked) until all have arrived and released together (schedule replay of the "
                  "interleavings the Conc model singles out), or ungated and unrecorded for every pair of methods under the race detector; non-trivial = goroutines really ran")


def finish(pid, tier, seed, t0, val, cov, by_id, races, mc, replay, rule):
    known, new = core.classify(pid, val["violations"])
    for v in known:
        print(f"KNOWN-FINDING: property={pid} {v['finding']} (scenario {v['scenario']})")
    rc = 0
    for v in new:
        extra = {"race_reports": [r["tops"] for r in races if r["rapid"]]} if v["scenario"] == "race-detector-reports" else {}
        path = core.write_replay(pid, by_id.get(v["scenario"]), dict(v, **extra))
        print(f"VIOLATION property={pid} replay={path}")
        core.log(f"   scenario {v['scenario']}: obligations violated: {v['names']} {extra}")
        rc = 1
    states = trans = 0
    notes = []
    if not replay:
        states, trans, notes = props.run_mc(mc, tier)
    if cov["distinct_nontrivial"] < 2 and not replay:
        raise core.Undecided("nothing concurrent was exercised")
    coverage = {"states": states + val["tlc_states"], "transitions": trans + val["lines"], "traces_validated_against_impl": val["scenarios"],
                "samples": cov["samples"], "evaluations": cov["evaluations"], "distinct_nontrivial": cov["distinct_nontrivial"], "rule": rule,
                "exhaustive": False, "race_reports": len(races), "race_reports_in_rapid": sum(1 for r in races if r["rapid"]),
                "design_models": notes, "binding_lost": val["binding_lost"],
                "checker_cmd": "tlc ConcTrace.tla on traces of harness-race.test (-race -tags verif) + race detector log; tlc Conc.tla"}
    core.write_evidence(pid, tier, seed, "model_checking", coverage, time.time() - t0, len(new),
                        ["the Go race detector is the instrument that observes memory accesses; a race is attributed to rapid when the first non-runtime frame of one access is a rapid function",
                         "TLA+ cannot observe Go memory accesses: the Conc model decides race freedom of the design (access/lockset table over all interleavings of 2 workers + the test goroutine)",
                         "gated runs hold goroutines at hook points (build tag verif) with a 50 ms escape; ungated runs record nothing inside the goroutines"])
    return rc


# ---------------------------------------------------------------------------
# C15: a generator shared by concurrently running checks

def c15_gens(rng, rnd):
    big = 0x10000 + rng.randrange(0, 0x8000)
    return {
        "deferred": g("Deferred", elem=g("SliceOf", elem=g("Int16"))),
        "deferred_nested": g("Deferred", elem=g("OneOf", gens=[g("Int8"), g("Deferred", elem=IntRange(1000, 2000))])),
        "custom": g("Custom", elem=g("Int32"), body=[draw(IntRange(0, 9), "a", "a"), iff("a", "le", 2, [op("skip")])]),
        "filter": g("Filter", elem=IntRange(0, 100000), pred="mod3"),
        "map": g("Map", elem=g("SliceOfN", elem=g("Byte"), minLen=0, maxLen=5)),
        "regexp_fresh": g("StringMatching", expr="%FRESH%{1,3}[a-f]+"),
        "regexp_fresh2": g("StringMatching", expr="x%FRESH%"),
        "regexp_bytes_fresh": g("SliceOfBytesMatching", expr="(?i)[k-q%s]{2,5}" % chr(0x3b1 + rng.randrange(0, 20))),
        "regexp": g("StringMatching", expr="\\w+@[a-z]{2,5}\\.(com|org)"),
        "string": g("String"),
        "stringn": g("StringN", minLen=1, maxLen=8, maxBytes=20),
        "oneof": g("OneOf", gens=[g("Int"), g("Uint8"), IntRange(-5, 5)]),
        "make_struct": g("Make", type="struct"),
        "make_map": g("Make", type="map"),
        "make_ptr": g("Make", type="ptr"),
        "make_nestedptr": g("Make", type="nestedptr"),
        **{"make_nested%d" % i: g("Make", type="nested%d" % i) for i in range(12)},
        "make_tree": g("Make", type="tree"),
        "distinct": g("SliceOfNDistinct", elem=IntRange(0, 6), minLen=0, maxLen=6),
        "distinct_small": g("SliceOfDistinct", elem=IntRange(0, 3)),
        "mapof": g("MapOfN", key=IntRange(0, 5), val=g("Bool"), minLen=0, maxLen=5),
        "mapvalues": g("MapOfValues", val=IntRange(0, 4)),
        "perm": g("Permutation", items=[str(i) for i in range(8)]),
        "perm2": g("Permutation", items=["1", "2"]),        # (short inputs: the identity permutation is drawn often)
        "perm3": g("Permutation", items=["5", "6", "7"]),
        "mapsampled": g("MapSampled"),
        "ptr": g("Ptr", elem=g("Float64"), allowNil=True),
        "floats": g("Float64Range", min="-1000", max="1000"),
        "runes": g("StringOf", elem=g("RuneFrom", expr="", items=["Lu", "Nd"])),
    }


def c15_scenarios(tier, seed):
    rng = random.Random(seed)
    out = []
    rounds = 2 if tier == "quick" else 12
    for rnd in range(1 if tier == "quick" else 4):
        gens = c15_gens(rng, rnd)
        for name in sorted(gens):
            for pairing in ("draw", "string", "sub"):
                if tier == "quick" and pairing != "draw" and rng.random() < 0.5:
                    continue
                out.append({"id": "c15-%s-%s-%d" % (name, pairing, rnd), "gen": gens[name], "k": 6, "iters": 8 if tier == "quick" else 30, "rounds": rounds,
                            "pairing": pairing, "seed": rng.randrange(1, 1 << 30)})
        # checks that each derive their own generator from the shared one (one more Filter on a chain of 1..8): deriving must not touch the shared one
        for n in ((1, 2, 3, 4, 5, 7) if tier == "quick" else range(0, 17)):
            out.append({"id": "c15-filterchain%d-derive-%d" % (n, rnd), "gen": g("FilterChain", minLen=n), "k": 4, "iters": 8 if tier == "quick" else 30,
                        "rounds": rounds, "pairing": "derive", "seed": rng.randrange(1, 1 << 30)})
        # two different generators whose lazily built parts go by one name inside rapid (a character class and its case-insensitive twin print alike),
        # drawn from concurrently; each is compared with what a process that only ever sees that one generator draws
        for kind in ("StringMatching", "SliceOfBytesMatching"):
            out.append({"id": "c15-namesake-%s-%d" % (kind, rnd), "gen": g(kind, expr="(?i)%FRESH%{3}x"), "gen2": g(kind, expr="%FRESH%{3}x"), "k": 6,
                        "iters": 6 if tier == "quick" else 20, "rounds": 3 if tier == "quick" else 12, "pairing": "namesake", "seed": rng.randrange(1, 1 << 30)})
        # deterministic interleaving: the first check is paused in its j-th user callback while the others run to completion
        for name in ("distinct", "distinct_small", "mapvalues", "filter", "custom", "map"):
            for j in (1, 2, 3, 5):
                out.append({"id": "c15-%s-interleave%d-%d" % (name, j, rnd), "gen": gens[name], "k": 3, "iters": 1, "rounds": 6 if tier == "quick" else 40,
                            "pairing": "interleave", "pauseAt": j, "seed": rng.randrange(1, 1 << 30)})
    return out


def rule_shared(evs):
    sh = [e for e in evs if e["ev"] == "shared"]
    if len(sh) < 2:
        return None
    return f"{len(sh)} draws made while sharing the generator, compared with {sum(1 for e in evs if e['ev']=='solo')} made alone"


def run_c15(tier, seed, replay, keep):
    t0 = time.time()
    if replay:
        scenarios = [json.load(open(replay))["scenario"]]
    else:
        scenarios = c15_scenarios(tier, seed)
    by_id = {s["id"]: s for s in scenarios}
    binary = core.build_harness(race=True)
    wd = core.scratch("verif-c15-")
    try:
        env = {"GORACE": "log_path=%s/race halt_on_error=0" % wd}
        parts = props.chunks(scenarios, 8)
        if not replay:
            # rapid.Make's per-type state is built once per process: every harness process begins with the nested pointer types, so that each
            # type's first use by concurrent checks happens in every one of them (8 chances per type instead of one)
            nested = [s for s in scenarios if s["gen"].get("k") == "Make" and "nested" in str(s["gen"].get("type", "")) and s["pairing"] == "draw"]
            for j, part in enumerate(parts):
                ids = {s["id"] for s in part}
                extra = [dict(s, id="%s-p%d" % (s["id"], j)) for s in nested if s["id"] not in ids]
                part[:0] = extra
                for s in extra:
                    by_id[s["id"]] = s
        import concurrent.futures as cf
        paths = []

        fatal = []

        def one(j):
            outp = os.path.join(wd, f"shared{j}.ndjson")
            try:
                core.run_harness(binary, parts[j], outp, CONC_EVENTS, mode="shared", timeout=1800, env=env)
            except core.Undecided as e:
                # the Go runtime kills the process on unsynchronised map access: that is the real code's behaviour, not a dead driver
                msg = str(e)
                m = re.search(r"fatal error: (concurrent map[^\n]*)", msg)
                if m and "pgregory.net/rapid." in msg:
                    fr = re.findall(r"(pgregory\.net/rapid\.[\w.()*\[\]]+)\(", msg)
                    fatal.append({"ev": "race", "rapid": True, "tops": ["fatal error: " + m.group(1)] + fr[:2]})
                    return None
                raise
            return outp
        with cf.ThreadPoolExecutor(max_workers=len(parts)) as ex:
            paths = [p for p in ex.map(one, range(len(parts))) if p]
        for i, fe in enumerate(fatal):
            with open(os.path.join(wd, "race.fatal%d" % i), "w") as f:
                f.write("")
        paths, races = append_races(paths, wd, extra=fatal)
        if keep:
            shutil.copytree(wd, "/tmp/keep-C15", dirs_exist_ok=True)
        val = props.validate_parallel("ConcTrace", CONC_CFG % "C15", paths)
        cov = props.scan_traces(paths[:-1], rule_shared)
        cov["samples"] = [{"scenario": s["scenario"], "what": s["what"]} for s in cov["samples"]] + \
                         [{"scenario": sc["id"], "generator": sc["gen"]["k"], "pairing": sc["pairing"]} for sc in scenarios[:2]]
    finally:
        shutil.rmtree(wd, ignore_errors=True)
    return finish("C15", tier, seed, t0, val, cov, by_id, races, CONC_MC[:1] + [("LazyInit", "LazyInit.cfg", "hold", ("quick", "thorough")),
                                                                               ("LazyInit", "LazyInit_pinned.cfg", "violate", ("quick", "thorough"))], replay,
                  "one case = one generator expression (Deferred, Custom, Filter, Map, regexp-based with a fresh big character class, String, OneOf, Make, "
                  "distinct collections, maps, Permutation, Ptr, floats) built afresh per round and drawn from by 6 goroutines (own T and seed each) under the race "
                  "detector, pairings draw||draw, draw||String, draw||use-as-sub-generator, plus deterministic interleavings pausing one check inside a user callback; "
                  "every draw is compared with the same draw made alone; non-trivial = at least two shared draws")
