"""C03 / C12 / C18: generator-level checks (contracts for every bitstream, exact minimization boundaries,
reachability / edges / fresh seeds)."""
import json
import os
import random
import re
import shutil
import subprocess
import time

from . import core, props
from .scen import g, draw, op, iff, scenario, IntRange, seeds

GEN_CFG = props.INV_CFG
GEN_EVENTS = "scen.begin,scen.end,run.begin,run.end,h.phase,contract,h.once.end,fuzz.end,reach,edge,fresh,genpanic,tb.errorf,harness.done"
C12_EVENTS = "scen.begin,scen.end,run.begin,run.end,h.phase,no-gen-phase,no-shrink-phase,contract,final-contracts-only,tb.errorf,harness.done"

INT_KINDS = {"Int": (True, 64), "Int8": (True, 8), "Int16": (True, 16), "Int32": (True, 32), "Int64": (True, 64), "Byte": (False, 8),
             "Uint": (False, 64), "Uint8": (False, 8), "Uint16": (False, 16), "Uint32": (False, 32), "Uint64": (False, 64), "Uintptr": (False, 64)}


def krange(kind):
    signed, bits = INT_KINDS[kind]
    return (-(1 << (bits - 1)), (1 << (bits - 1)) - 1) if signed else (0, (1 << bits) - 1)


def rand_in(rng, lo, hi):
    r = rng.random()
    cands = [lo, hi, lo + 1, hi - 1, 0, 1, -1, (lo + hi) // 2]
    for j in (7, 8, 15, 16, 31, 32, 55, 56, 59, 60, 61, 62, 63):
        cands += [1 << j, (1 << j) - 1, (1 << j) + 1, -(1 << j), -(1 << j) + 1]
    cands = [c for c in cands if lo <= c <= hi]
    if r < 0.7:
        return rng.choice(cands)
    return rng.randrange(lo, hi + 1)


def int_gen(rng, kind=None):
    kind = kind or rng.choice(sorted(INT_KINDS))
    lo, hi = krange(kind)
    v = rng.choice(["", "Min", "Max", "Range", "Range", "Range"])
    if v == "":
        return g(kind)
    if v == "Min":
        return g(kind + "Min", min=str(rand_in(rng, lo, hi)))
    if v == "Max":
        return g(kind + "Max", max=str(rand_in(rng, lo, hi)))
    a, b = rand_in(rng, lo, hi), rand_in(rng, lo, hi)
    if rng.random() < 0.25:
        b = a
    a, b = min(a, b), max(a, b)
    return g(kind + "Range", min=str(a), max=str(b))


FLOATS = ["0", "-0", "1", "-1", "minsub", "-minsub", "maxf64", "-maxf64", "inf", "-inf", "1e-300", "-1e-300", "0.1", "3.5", "1e300", "-2.5",
          "bits:0x3ff0000000000001", "bits:0x3ff0000000000000", "bits:0x0010000000000000", "bits:0x000fffffffffffff", "bits:0x7fefffffffffffff",
          "1.5", "2", "1e-45", "3.4028234663852886e38", "-3.4028234663852886e38", "16777216", "16777217", "0.30000000000000004"]


def fval(s):
    import struct
    m = {"inf": float("inf"), "-inf": float("-inf"), "maxf64": 1.7976931348623157e308, "-maxf64": -1.7976931348623157e308,
         "minsub": 5e-324, "-minsub": -5e-324, "-0": -0.0}
    if s in m:
        return m[s]
    if s.startswith("bits:"):
        return struct.unpack("<d", struct.pack("<Q", int(s[5:], 0)))[0]
    return float(s)


def float_gen(rng):
    k32 = rng.random() < 0.4
    base = "Float32" if k32 else "Float64"
    v = rng.choice(["", "Min", "Max", "Range", "Range", "Range"])
    pool = [f for f in FLOATS if not (k32 and (abs(fval(f)) > 3.4028234663852886e38 and abs(fval(f)) != float("inf")))]
    if v == "":
        return g(base)
    if v == "Min":
        return g(base + "Min", min=rng.choice([f for f in pool if f != "inf"] if not k32 else [f for f in pool if f not in ("inf",)]))
    if v == "Max":
        return g(base + "Max", max=rng.choice([f for f in pool if f != "-inf"]))
    a, b = rng.choice(pool), rng.choice(pool)
    if rng.random() < 0.25:
        b = a
    if fval(a) > fval(b):
        a, b = b, a
    if k32:
        import struct
        def f32(x):
            try:
                return struct.unpack("<f", struct.pack("<f", x))[0]
            except OverflowError:
                return float("inf") if x > 0 else float("-inf")
        if f32(fval(a)) > f32(fval(b)):
            return g(base)
    return g(base + "Range", min=a, max=b)


REGEXPS = ["[a-c]{2,4}x?", "\\d+", "(?i)ab*c", "a|bc|def", "^start.*end$", "[^\\x00-\\x7f]{1,3}", "\\w+@[a-z]{2,5}\\.(com|org)", "(ab){0,3}c?",
           "\\bfoo\\b", ".", "(?s).", "x{3}", "[[:alpha:]][[:digit:]]*", "\\p{Greek}+", "(?i)[k-qα]{2,5}", "a*", "$^", "\\x{10FFFF}"]
REGEXPS += ["[a-z!]\\B[a-z!]", "(?:foo|-)\\B(?:bar|-)", "\\w+\\B[ .x]", "\\Aab?\\z", "(?m)^a$\\n^b$", "a\\b b\\B", "(?U)a+?b*", "[^a]", "(?i)ǅs", "\\pN{2}|\\PL",
            "(?s)a.b", "a.b", "(?m:^)x(?m:$)", "\\Bx\\B|\\by\\b", "[\\x{D7FF}-\\x{E000}]{1,2}", "(?i)\\B[a-c_]\\B"]


def random_regexp(rng, depth=3):
    """A random, syntactically valid RE2 expression over every construct rapid's regexp generator has a case for
    (literals, classes, dot with and without (?s), repetition, alternation, groups, flags, and all six zero-width assertions)."""
    def atom(d):
        k = rng.randrange(14 if d > 0 else 10)
        if k == 0:
            return rng.choice(["a", "b", "Z", "0", "_", " ", "-", "é", "ж", "\\.", "\\n", "\\x{1F600}"])
        if k == 1:
            return rng.choice(["[a-c]", "[^a-c]", "[a-z!]", "[0-9_]", "[ .x]", "[[:alpha:]]", "[[:^digit:]]", "[\\w-]", "[^\\x00-\\x{10FFFE}]", "[α-ω]"])
        if k == 2:
            return rng.choice(["\\d", "\\w", "\\s", "\\D", "\\W", "\\S", "\\pL", "\\PL", "\\p{Greek}", "\\pN"])
        if k == 3:
            return rng.choice([".", "(?s:.)", "(?i:k)", "(?i:s)"])
        if k == 4:
            return rng.choice(["\\b", "\\B", "\\b", "\\B", "^", "$", "\\A", "\\z", "(?m:^)", "(?m:$)"])
        if k in (5, 6, 7, 8, 9):
            return rng.choice(["a", "b", "x", "foo", "-", "1"])
        if k in (10, 11):
            return "(?:" + expr(d - 1) + ")" + rng.choice(["", "", "*", "+", "?", "{2}", "{0,2}", "{1,3}", "*?", "+?"])
        if k == 12:
            return "(" + expr(d - 1) + ")"
        return "(?:" + expr(d - 1) + "|" + expr(d - 1) + ")"

    def quant(a):
        if a and a[0] not in "^$(" and not a.startswith(("\\b", "\\B", "\\A", "\\z")) and rng.random() < 0.3:
            return a + rng.choice(["*", "+", "?", "{2}", "{1,3}", "{0,1}"])
        return a

    def expr(d):
        return "".join(quant(atom(d)) for _ in range(rng.randint(1, 4)))

    e = expr(depth)
    if rng.random() < 0.2:
        e = rng.choice(["(?i)", "(?s)", "(?m)", "(?U)"]) + e
    return e


TABLES = ["Lu", "Ll", "Nd", "P", "Cs", "Co", "Cc", "Zs", "Sm", "Mn", "C"]
PREDS = ["even", "nonzero", "mod3", "always"]
MAKES = ["int", "struct", "named", "namedstr", "slice", "map", "ptr", "array", "bool", "string", "emptystruct", "set", "sliceempty", "marker",
         "emptyarray", "floats", "uintptr", "local1", "local2", "tree", "nestedptr"]


def lens(rng):
    r = rng.random()
    if r < 0.25:
        n = rng.choice([0, 1, 2, 5])
        return n, n
    if r < 0.4:
        return 0, 0
    a = rng.choice([-1, 0, 1, 3])
    b = rng.choice([-1, 0, 1, 4, 10])
    if b >= 0 and a > b:
        a = b
    return a, b


def rune_gen(rng):
    r = rng.random()
    if r < 0.3:
        return g("Rune")
    if r < 0.5:
        return g("RuneFrom", expr=rng.choice(["a", "abé", "世界\U0001f600", "\x00\x7f", "�"]), items=[])
    if r < 0.8:
        return g("RuneFrom", expr="", items=rng.sample(TABLES, rng.choice([1, 1, 2])))
    return g("RuneFrom", expr=rng.choice(["x", "\U0010ffff"]), items=rng.sample(TABLES, 1))


def string_gen(rng):
    r = rng.random()
    a, b = lens(rng)
    mb = rng.choice([-1, -1, 0, 1, 3, 4, 8, 40])
    if mb >= 0 and b > mb:
        mb = b
    if mb >= 0 and b < 0:
        b = -1
    if r < 0.15:
        return g("String")
    if r < 0.45:
        return g("StringN", minLen=a, maxLen=b, maxBytes=mb)
    if r < 0.6:
        return g("StringOf", elem=rune_gen(rng))
    if r < 0.85:
        return g("StringOfN", elem=rune_gen(rng), minLen=a, maxLen=b, maxBytes=mb)
    return g(rng.choice(["StringMatching", "SliceOfBytesMatching"]), expr=rng.choice(REGEXPS))


def scalar(rng):
    r = rng.random()
    if r < 0.45:
        return int_gen(rng)
    if r < 0.7:
        return float_gen(rng)
    if r < 0.78:
        return g("Bool")
    if r < 0.85:
        return rune_gen(rng)
    if r < 0.9:
        return g("Just", items=[str(rng.randrange(-5, 5))])
    if r < 0.95:
        return g("SampledFrom", items=[str(rng.randrange(100)) for _ in range(rng.choice([1, 1, 2, 3, 7, 256]))])
    return string_gen(rng)


def key_elem(rng):
    # comparable, small domains make duplicates (and rejections) likely
    r = rng.random()
    if r < 0.5:
        lo = rng.choice([0, -2, 100])
        return g("IntRange", min=str(lo), max=str(lo + rng.choice([0, 1, 2, 3, 7])))
    if r < 0.7:
        return g("Bool")
    if r < 0.85:
        return g(rng.choice(["Uint8", "Int8"]))
    return g("StringN", minLen=0, maxLen=2, maxBytes=-1)


def gen_expr(rng, depth):
    if depth <= 0 or rng.random() < 0.25:
        return scalar(rng)
    r = rng.random()
    a, b = lens(rng)
    if r < 0.12:
        return g("SliceOf", elem=gen_expr(rng, depth - 1))
    if r < 0.24:
        return g("SliceOfN", elem=gen_expr(rng, depth - 1), minLen=a, maxLen=b)
    if r < 0.32:
        return g("SliceOfDistinct", elem=key_elem(rng))
    if r < 0.42:
        return g("SliceOfNDistinct", elem=key_elem(rng), minLen=a, maxLen=b)
    if r < 0.5:
        return g(rng.choice(["MapOf", "MapOfN"]), key=key_elem(rng), val=gen_expr(rng, depth - 1), minLen=a, maxLen=b)
    if r < 0.56:
        return g(rng.choice(["MapOfValues", "MapOfNValues"]), val=key_elem(rng), minLen=a, maxLen=b)
    if r < 0.62:
        return g("Permutation", items=[str(rng.randrange(5)) for _ in range(rng.choice([0, 1, 2, 5, 9]))])
    if r < 0.7:
        return g("OneOf", gens=[gen_expr(rng, depth - 1) for _ in range(rng.choice([1, 2, 3]))])
    if r < 0.76:
        return g("Ptr", elem=gen_expr(rng, depth - 1), allowNil=rng.random() < 0.5)
    if r < 0.82:
        return g("Filter", elem=int_gen(rng), pred=rng.choice(PREDS))
    if r < 0.86:
        return g("Map", elem=gen_expr(rng, depth - 1))
    if r < 0.9:
        return g("Deferred", elem=gen_expr(rng, depth - 1))
    if r < 0.95:
        return g("Custom", elem=gen_expr(rng, depth - 1), body=[draw(IntRange(0, 3), "a", "a"), iff("a", "le", rng.choice([-1, 0, 1]), [op("skip")])])
    return g("Make", type=rng.choice(MAKES))


def all_constructors():
    """Every constructor of the catalogue at least once, with extreme parameters (so that none can be missed)."""
    rng = random.Random(7)
    out = []
    for k in sorted(INT_KINDS):
        lo, hi = krange(k)
        out += [g(k), g(k + "Min", min=str(hi)), g(k + "Min", min=str(lo)), g(k + "Max", max=str(lo)), g(k + "Max", max=str(hi)),
                g(k + "Range", min=str(lo), max=str(hi)), g(k + "Range", min=str(hi), max=str(hi)), g(k + "Range", min=str(lo), max=str(lo)),
                g(k + "Range", min=str(lo), max=str(lo + 1)), g(k + "Range", min=str(hi - 1), max=str(hi))]
        if lo < 0:
            out += [g(k + "Range", min="-1", max="1"), g(k + "Range", min=str(lo), max="0"), g(k + "Range", min="0", max=str(hi)), g(k + "Range", min=str(lo), max="-1")]
    for base in ("Float32", "Float64"):
        mx = "3.4028234663852886e38" if base == "Float32" else "maxf64"
        out += [g(base), g(base + "Min", min="0"), g(base + "Min", min="-0"), g(base + "Max", max="0"), g(base + "Min", min=mx), g(base + "Max", max="-" + mx),
                g(base + "Range", min="-inf", max="inf"), g(base + "Range", min="inf", max="inf"), g(base + "Range", min="-inf", max="-inf"),
                g(base + "Range", min="-0", max="0"), g(base + "Range", min="0", max="0"), g(base + "Range", min="-minsub", max="minsub"),
                g(base + "Range", min="1", max="bits:0x3ff0000000000001"), g(base + "Range", min="0.1", max="0.1"), g(base + "Range", min="-1", max="1"),
                g(base + "Range", min="-inf", max="0"), g(base + "Range", min="0", max="inf"), g(base + "Range", min="1e-300", max="1e300") if base == "Float64" else g(base + "Range", min="1e-45", max="1e38")]
    out += [g("Bool"), g("Rune"), g("String"), g("StringN", minLen=0, maxLen=0, maxBytes=0), g("StringN", minLen=3, maxLen=3, maxBytes=3),
            g("StringN", minLen=2, maxLen=5, maxBytes=5), g("StringN", minLen=-1, maxLen=-1, maxBytes=0), g("StringN", minLen=1, maxLen=-1, maxBytes=-1)]
    for t in TABLES:
        out += [g("RuneFrom", expr="", items=[t]), g("StringOfN", elem=g("RuneFrom", expr="", items=[t]), minLen=0, maxLen=4, maxBytes=6),
                g("StringOf", elem=g("RuneFrom", expr="q", items=[t]))]
    out += [g("StringOfN", elem=g("RuneFrom", expr="\ud800".encode("utf-16", "surrogatepass").decode("utf-16", "replace"), items=["Cs"]), minLen=0, maxLen=3, maxBytes=4)]
    for e in REGEXPS:
        out += [g("StringMatching", expr=e), g("SliceOfBytesMatching", expr=e)]
    for t in MAKES:
        out.append(g("Make", type=t))
    out.append(g("OneOf", gens=[g("Make", type="local1"), g("Make", type="local2"), g("Make", type="local1")]))
    out += [g("StringOfN", elem=g("RuneSampled", items=["97", "233", "0xD800", "0x4e16", "98", "0xDFFF", "0x10FFFF", "0x110000", "-1"]), minLen=0, maxLen=6, maxBytes=7)]
    out += [g("Permutation", items=["3", "4"]), g("Permutation", items=["30", "10", "20"]), g("FilterSiblings", minLen=3), g("FilterSiblings", minLen=1),
            g("FilterSiblings", minLen=5), g("MapSampled")]
    out += [g("RecTree"), g("SliceOfN", elem=g("RecTree"), minLen=2, maxLen=4)]     # recursion through Deferred: one generator object active several times at once
    el = g("IntRange", min="0", max="2")
    out += [g("SliceOf", elem=g("Int8")), g("SliceOfN", elem=g("Bool"), minLen=0, maxLen=0), g("SliceOfN", elem=g("Bool"), minLen=4, maxLen=4),
            g("SliceOfDistinct", elem=el), g("SliceOfNDistinct", elem=el, minLen=3, maxLen=3), g("SliceOfNDistinct", elem=el, minLen=4, maxLen=5),
            g("SliceOfNDistinct", elem=g("Bool"), minLen=0, maxLen=2), g("MapOf", key=el, val=g("Int")), g("MapOfN", key=el, val=g("Bool"), minLen=3, maxLen=3),
            g("MapOfN", key=g("Bool"), val=g("Bool"), minLen=3, maxLen=4), g("MapOfValues", val=el), g("MapOfNValues", val=el, minLen=1, maxLen=2),
            g("Just", items=["7"]), g("SampledFrom", items=["1"]), g("SampledFrom", items=[str(i) for i in range(300)]),
            g("Permutation", items=[]), g("Permutation", items=["1"]), g("Permutation", items=[str(i % 3) for i in range(7)]),
            g("OneOf", gens=[g("Int8")]), g("OneOf", gens=[g("Int8"), g("Uint16"), el]), g("Ptr", elem=g("Int"), allowNil=False), g("Ptr", elem=g("Int"), allowNil=True),
            g("Filter", elem=g("Int16"), pred="even"), g("Filter", elem=el, pred="never"), g("Map", elem=g("String")), g("Deferred", elem=g("SliceOf", elem=g("Byte"))),
            g("Custom", elem=g("Int8"), body=[]), g("Custom", elem=g("Int8"), body=[draw(IntRange(0, 3), "a", "a"), iff("a", "le", 2, [op("skip")])]),
            g("Custom", elem=g("Int8"), body=[op("skip")])]
    return out


FUZZ_PATTERNS = ["", "00" * 8, "00" * 400, "ff" * 400, "01" * 400, "80" * 401, "7f" * 399, ("ff" * 8 + "00" * 8) * 30, ("00" * 7 + "80") * 50,
                 ("ffffffffffffff7f") * 50, "ff" * 8 + "00" * 392, "00" * 8 + "ff" * 392, ("0100000000000000") * 50, ("ffffffffffff0f00") * 50]


def fuzz_inputs(rng, n):
    out = list(FUZZ_PATTERNS)
    for j in range(64):
        out.append(("%016x" % (1 << j)) * 3 + "ff" * 300)        # words 2^k (big-endian hex of the bytes: still a spread of bit patterns)
    while len(out) < n:
        ln = rng.choice([1, 8, 9, 16, 33, 64, 200, 800, 3000])
        out.append(bytes(rng.randrange(256) for _ in range(ln)).hex())
    trunc = rng.choice(out[-5:])
    for cut in range(0, min(len(trunc) // 2, 40)):
        out.append(trunc[:2 * cut])
    return out[:max(n, len(FUZZ_PATTERNS))]


def c03_scenarios(tier, seed):
    rng = random.Random(seed)
    out = []
    exprs = all_constructors()
    nrand = 150 if tier == "quick" else 2500
    for _ in range(nrand):
        exprs.append(gen_expr(rng, rng.choice([1, 2, 3])))
    for _ in range(60 if tier == "quick" else 1200):
        exprs.append(g(rng.choice(["StringMatching", "SliceOfBytesMatching"]), expr=random_regexp(rng, rng.choice([1, 2, 3]))))
    ninputs = 40 if tier == "quick" else 300
    nseeds = 4 if tier == "quick" else 25
    for i in range(0, len(exprs), 3):
        grp = exprs[i:i + 3]
        body = [draw(e, "v%d" % j) for j, e in enumerate(grp)]
        kinds = "+".join(e["k"] for e in grp)
        runs = [{"entry": "fuzz", "fuzz": fuzz_inputs(rng, ninputs)}]
        for sd in seeds(rng, nseeds):
            runs.append({"entry": "check", "flags": {"seed": str(sd), "checks": "40", "nofailfile": "true", "shrinktime": "0s"}})
        out.append(scenario("c03-%d-%s" % (i // 3, kinds[:60]), {"body": body}, {"steps": 5}, runs=runs, entry="fuzz", tag={"mayfail": False, "gens": kinds}))
    return out


def catalogue_gap():
    """public constructors of rapid (go doc) that the catalogue does not know"""
    try:
        p = subprocess.run(["go", "doc", "-short", "."], cwd=core.REPO, env=core.GOENV, capture_output=True, text=True, timeout=120)
    except Exception:
        return None
    names = set(re.findall(r"^\s*func (\w+)\(", p.stdout, re.M)) | set(re.findall(r"^\s*func (\w+)\[", p.stdout, re.M))
    src = open(os.path.join(core.HARNESS, "gens.go")).read()
    notgen = {"Check", "MakeCheck", "MakeFuzz", "ID", "StateMachineActions"}
    return sorted(n for n in names - notgen if ("rapid." + n) not in src)


def rule_contracts(evs):
    n = sum(1 for e in evs if e["ev"] == "contract")
    if n < 2:
        return None
    fz = {}
    for e in evs:
        if e["ev"] == "fuzz.end":
            fz[e["status"]] = fz.get(e["status"], 0) + 1
    return f"{n} drawn values checked against their contracts; fuzz calls by status {fz}"


MIN_TRACE_CFG = """SPECIFICATION TSpec
CONSTANTS
  Design = "code"
  W = 8
  Property = "%s"
CONSTANT Cond <- CondSet
CONSTRAINT HW
POSTCONDITION Accepted
CHECK_DEADLOCK FALSE
"""


def minimizer_conformance(binary, wd, tier, seed):
    """C12: the real block minimizer against its transcription (MinimizeTrace): an exhaustive threshold sweep in the harness and
    recorded calls with arbitrary conditions recomputed by TLC.  Returns (validation result, summary for the evidence)."""
    rng = random.Random(seed + 12)
    ncalls, nproc = (1500, 4) if tier == "quick" else (40000, 16)
    sc = [{"id": "c12-minimizer-%d" % j, "w": (11 if tier == "quick" else 13) if j == 0 else 0, "calls": ncalls // nproc, "seed": rng.randrange(1, 1 << 62)}
          for j in range(nproc)]
    import concurrent.futures as cf

    def one(j):
        outp = os.path.join(wd, f"min{j}.ndjson")
        core.run_harness(binary, [sc[j]], outp, "", mode="minimize", timeout=3000)
        return outp
    with cf.ThreadPoolExecutor(max_workers=nproc) as ex:
        paths = list(ex.map(one, range(nproc)))
    val = props.validate_parallel("MinimizeTrace", MIN_TRACE_CFG % "C12", paths)
    sweep = {}
    calls = 0
    for pth in paths:
        for line in open(pth):
            if '"min.sweep"' in line:
                e = json.loads(line)
                sweep = {"width": e["w"], "pairs": e["pairs"], "queries": e["queries"], "mismatches": len(e["mismatches"])}
            elif '"min.call"' in line:
                calls += 1
    return val, {"minimizer_threshold_sweep": sweep, "minimizer_calls_recomputed_by_tlc": calls}, sc


def generic_run(pid, tier, seed, replay, keep, scenarios, rule, rule_text, assumptions, mc, extra_cov=None, mode="scenarios", level="exploration",
                events=None):
    events = events or GEN_EVENTS
    t0 = time.time()
    if replay:
        scenarios = [json.load(open(replay))["scenario"]]
    by_id = {s["id"]: s for s in scenarios}
    binary = core.build_harness()
    wd = core.scratch("verif-gen-")
    try:
        if mode == "scenarios":
            paths = props.run_scenarios_parallel(binary, scenarios, events, wd, par=min(props.NCPU, max(1, len(scenarios) // 2)),
                                                 timeout=1800 if tier == "quick" else 7200)   # (the thorough tier of C12 takes 20 min on an idle machine)
        else:
            parts = props.chunks(scenarios, min(props.NCPU, len(scenarios)))
            import concurrent.futures as cf

            def one(j):
                outp = os.path.join(wd, f"t{j}.ndjson")
                core.run_harness(binary, parts[j], outp, events, mode=mode, timeout=3000)
                return outp
            with cf.ThreadPoolExecutor(max_workers=len(parts)) as ex:
                paths = list(ex.map(one, range(len(parts))))
        if keep:
            shutil.copytree(wd, "/tmp/keep-" + pid, dirs_exist_ok=True)
        val = props.validate_parallel("GenTrace", GEN_CFG % pid, paths)
        cov = props.scan_traces(paths, rule)
        if pid == "C12" and not replay:
            mval, mcov, msc = minimizer_conformance(binary, wd, tier, seed)
            val["violations"] += mval["violations"]
            val["binding_lost"] = sorted(set(val["binding_lost"]) | set(mval["binding_lost"]))
            for key in ("scenarios", "lines", "tlc_states"):
                val[key] += mval[key]
            for m_ in msc:
                by_id[m_["id"]] = m_
            extra_cov = dict(extra_cov or {}, **mcov)
    finally:
        shutil.rmtree(wd, ignore_errors=True)
    known, new = core.classify(pid, val["violations"])
    for v in known:
        print(f"KNOWN-FINDING: property={pid} {v['finding']} (scenario {v['scenario']})")
    rc = 0
    for v in new:
        path = core.write_replay(pid, by_id.get(v["scenario"]), v)
        print(f"VIOLATION property={pid} replay={path}")
        core.log(f"   scenario {v['scenario']}: obligations violated: {v['names']}")
        rc = 1
    states = trans = 0
    notes = []
    if not replay:
        states, trans, notes = props.run_mc(mc, tier)
    if cov["distinct_nontrivial"] < 2 and not replay:
        raise core.Undecided("nothing non-trivial was exercised")
    coverage = {"evaluations": cov["evaluations"], "distinct_nontrivial": cov["distinct_nontrivial"], "rule": rule_text,
                "samples": [{"scenario": s["scenario"], "what": s["what"]} for s in cov["samples"]] or [{"note": "none"}],
                "states": states + val["tlc_states"], "transitions": trans + val["lines"], "traces_validated_against_impl": val["scenarios"],
                "exhaustive": False, "design_models": notes, "binding_lost": val["binding_lost"], "events_validated": val["lines"],
                "checker_cmd": "tlc GenTrace.tla (Property=%s) on traces recorded by harness.test -tags verif; tlc %s" % (pid, ", ".join(sorted({m[0] for m in mc})))}
    if extra_cov:
        coverage.update(extra_cov() if callable(extra_cov) else extra_cov)
    core.write_evidence(pid, tier, seed, level, coverage, time.time() - t0, len(new), assumptions)
    return rc


INT_MC = [("IntGen", "IntGen.cfg", "hold", ("quick", "thorough")), ("IntGen", "IntGen_pinned.cfg", "violate", ("quick", "thorough")),
          ("IntGen", "IntGen_big.cfg", "hold", ("thorough",))]


def run_c03(tier, seed, replay, keep):
    gap = catalogue_gap()
    if gap:
        core.log(f"[C03] public constructors not in the catalogue: {gap}")
    return generic_run("C03", tier, seed, replay, keep, c03_scenarios(tier, seed), rule_contracts,
                       "one case = three generator expressions (every public constructor with extreme parameters, plus random nestings to depth 3) "
                       "drawn from ~40 (quick) / 300 (thorough) arbitrary byte strings through MakeFuzz (all-zero, all-ones, 2^k words, random, every truncation) "
                       "and from PRNG seeds through Check; every drawn value's contract fields are evaluated by GenTrace; non-trivial = at least two values were drawn",
                       ["carried predicates (valid UTF-8, regexp match, membership, dynamic type, filter predicate, rune tables) are evaluated by the harness with the standard library and only required to be TRUE by the specification",
                        "float order uses an order-preserving 64-bit key computed by the recorder",
                        "a generator that loops forever shows as a harness time-out (exit 2), not as a violation"],
                       props.STREAM_MC[:1] + INT_MC, extra_cov={"uncovered_constructors": gap or []})


def Wpy(u):
    u &= (1 << 64) - 1
    return {"d": str(u), "i": u if u < (1 << 30) else -1, "l": [u >> 48, (u >> 32) & 0xffff, (u >> 16) & 0xffff, u & 0xffff]}


def WIpy(v):
    w = Wpy((v & ((1 << 64) - 1)) ^ (1 << 63))
    w["d"] = str(v)
    return w


def thresholds(kind, rng, tier):
    signed, bits = INT_KINDS[kind]
    lo, hi = krange(kind)
    ks = {1, 2, 3, 5, hi - 1, hi, 0}
    for j in range(1, bits):
        ks |= {(1 << j) - 1, 1 << j, (1 << j) + 1}
    if signed:
        ks |= {-k for k in ks} | {lo, lo + 1}
    ks = sorted(k for k in ks if lo <= k <= hi)
    if tier == "quick":
        keep = {1, 5, hi, hi - 1, (1 << (bits - 2)), (1 << (bits - 2)) - 1, (1 << (bits - 1)) - 1 if not signed else (1 << (bits - 2)) + 1,
                1 << (bits - 1) if not signed else -(1 << (bits - 2)), lo, lo + 1, -1, -5, 255, 256, 257, (1 << 62), (1 << 63), (1 << 63) + 1, -(1 << 62) - 1}
        ks = [k for k in ks if k in keep] + rng.sample(ks, min(3, len(ks)))
    return sorted(set(ks))


def fail_styles(var):
    """Ways for the property to fail: the boundary must be reached whatever the style, also when the message or panic value shows the data."""
    return [op("fatalf", site=1), op("fatalf", site=1, var=var), op("fatal", site=2, var=var), op("errorf", text="too big:", var=var), op("errorf", text="const"),
            op("error", text="v", var=var), op("fail"), op("failnow", site=1), op("panic", site=1, val="data", var=var), op("panic", site=2, val="dataerr", var=var),
            op("panic", site=1, val="struct"), op("rterr", site=1, val="indexv", var=var), op("rterr", site=2, val="div")]


def c12_scenarios(tier, seed):
    rng = random.Random(seed)
    out = []
    styles = fail_styles("x")
    nstyle = 0
    nseeds = 1 if tier == "quick" else 6
    for kind in sorted(INT_KINDS):
        if kind == "Uintptr" and tier == "quick":
            continue
        signed, bits = INT_KINDS[kind]
        enc = WIpy if signed else Wpy
        for k in thresholds(kind, rng, tier):
            for direction in ("ge", "le"):
                if direction == "le" and not signed and tier == "quick" and k not in (0, 5):
                    continue
                for sd in seeds(rng, nseeds):
                    nstyle += 1
                    body = [draw(g(kind), "x", "x"), iff("x", direction, k, [styles[nstyle % len(styles)] if nstyle % 2 else op("fatalf", site=1)])]
                    # far-out thresholds are found through the overflow-to-extreme path (a few per cent of the draws)
                    fl = {"checks": 3000, "seed": sd, "nofailfile": "true"}
                    st = rng.choice(["", "", "5s", "8s"])      # these minimizations take milliseconds: any of these budgets is "enough time"
                    if st:
                        fl["shrinktime"] = st
                    out.append(scenario("c12-%s-%s-%d-%d" % (kind, direction, k, sd), {"body": body}, fl,
                                        tag={"mayfail": True, "goal": "int", "dir": direction, "k": enc(k), "zero": enc(0), "kind": kind, "threshold": str(k)}))
    # through MakeCheck under a real *testing.T whose test binary has no timeout (-test.timeout=0: Deadline() reports none): minimization still has its full budget
    for kind, k, direction in (("Int64", 1000, "ge"), ("Int32", -70000, "le"), ("Uint64", (1 << 63) + 5, "ge"), ("Uint8", 200, "ge")):
        signed, bits = INT_KINDS[kind]
        enc = WIpy if signed else Wpy
        for sd in seeds(rng, 2 if tier == "quick" else 10):
            body = [draw(g(kind), "x", "x"), iff("x", direction, k, [op("fatalf", site=1)])]
            out.append(scenario("c12-makecheck-%s-%d-%d" % (kind, k, sd), {"body": body}, {"checks": 3000, "seed": sd, "nofailfile": "true"}, entry="makecheck",
                                name="TestMinimizeNoTimeout", tag={"mayfail": True, "goal": "int", "dir": direction, "k": enc(k), "zero": enc(0), "kind": kind, "threshold": str(k)}))
    # a slow search phase (60 ms per random test case, typically a few seconds) must not eat the 1 s minimization budget
    for kind, k in (("Uint64", (1 << 63) + 12345), ("Int64", -(1 << 62) - 7)):
        signed, bits = INT_KINDS[kind]
        enc = WIpy if signed else Wpy
        direction = "le" if k < 0 else "ge"
        for sd in seeds(rng, 4 if tier == "quick" else 20):
            body = [op("sleepgen", ms=60), draw(g(kind), "x", "x"), iff("x", direction, k, [op("fatalf", site=1)])]
            out.append(scenario("c12-slowsearch-%s-%d-%d" % (kind, k, sd), {"body": body}, {"checks": 3000, "seed": sd, "nofailfile": "true", "shrinktime": "1s"},
                                tag={"mayfail": True, "goal": "int", "dir": direction, "k": enc(k), "zero": enc(0), "kind": kind, "threshold": str(k)}))
    ks = [0, 1, 2, 3, 5, 8] if tier == "quick" else list(range(0, 33))
    colls = {
        "slice_int64": (g("SliceOf", elem=g("Int64")), True), "slice_uint8": (g("SliceOf", elem=g("Uint8")), True), "slice_int": (g("SliceOf", elem=g("Int")), True),
        "string": (g("String"), False), "map": (g("MapOf", key=g("Int"), val=g("Int8")), False), "slice_bool": (g("SliceOf", elem=g("Bool")), True),
        "stringof": (g("StringOf", elem=g("RuneFrom", expr="ab", items=[])), False), "distinct": (g("SliceOfDistinct", elem=g("Uint16")), False),
    }
    for cn, (gen, zeros) in sorted(colls.items()):
        for k in ks + ([16, 32] if tier == "quick" and cn == "slice_int64" else []):
            if tier == "quick" and cn in ("slice_int", "slice_bool", "stringof") and k not in (0, 3):
                continue
            for sd in seeds(rng, nseeds):
                nstyle += 1
                body = [draw(gen, "c", "c"), iff("c", "lenge", k, [fail_styles("c")[nstyle % len(styles)] if nstyle % 2 else op("fatalf", site=1)])]
                out.append(scenario("c12-%s-len%d-%d" % (cn, k, sd), {"body": body}, {"checks": 3000, "seed": sd, "nofailfile": "true", "shrinktime": "10m"},
                                    tag={"mayfail": True, "goal": "len", "k": k, "zeros": zeros, "coll": cn}))
    return out


def rule_minimized(evs):
    rep = props.reported(evs)
    if rep is None:
        return None
    acc = "?"
    fin = [e for e in evs if e["ev"] == "contract"]
    v = (fin[0].get("v") or {}).get("d") if fin and fin[0].get("c") == "int" else (fin[0].get("len", fin[0].get("runes")) if fin else None)
    return f"failure found and minimized ({acc} candidates tried); final first draw: {v}"


MIN_MC = [("Minimize", "Minimize.cfg", "hold", ("quick", "thorough")), ("Minimize", "Minimize_broken.cfg", "violate", ("quick", "thorough")),
          ("Minimize", "Minimize_big.cfg", "hold", ("thorough",))]


def run_c12(tier, seed, replay, keep):
    return generic_run("C12", tier, seed, replay, keep, c12_scenarios(tier, seed), rule_minimized,
                       "one case = one Check of a threshold property (full-range integer kind x threshold incl. 2^j-1, 2^j, 2^j+1 for every j, type extremes, both signs x direction, "
                       "or slice/string/map with at least k elements for k in 0..32) with the default minimization time; the value of the first draw of the final replay is compared "
                       "in GenTrace (limb arithmetic) with the exact boundary; non-trivial = a failure was found within 3000 test cases and minimized",
                       ["a scenario in which no failing test case is found within 3000 random cases is counted as not exercised, never as a violation",
                        "'given enough time': the default 30 s minimization budget; minimization of these properties reaches its fixpoint in well under a second",
                        "exactness on the model: Minimize.tla (all start values < 2^8 (quick) / 2^10 (thorough) and all thresholds) + IntGen!Monotone"],
                       MIN_MC + INT_MC[:1], events=C12_EVENTS)


def c18_scenarios(tier, seed):
    rng = random.Random(seed)
    out = []
    # (1) every value of 8-bit ranges, exhaustively over the decoder's input classes
    for kind in ("Uint8", "Int8", "Byte"):
        lo, hi = krange(kind)
        ranges = set()
        if tier == "thorough" and kind != "Byte":
            # every range with an end at (or next to) a type extreme or zero, every range of up to 4 values, and a sample of the rest: 6 000 of the
            # 32 896 ranges of the kind (all of them need 8-12 GB per harness process -- 16 of those were more than this sandbox has)
            near = [lo, lo + 1, -1, 0, 1, hi - 1, hi]
            for a in range(lo, hi + 1):
                for b in range(a, hi + 1):
                    if a in near or b in near or b - a <= 3:
                        ranges.add((a, b))
            while len(ranges) < 6000:
                a = rng.randrange(lo, hi + 1)
                b = rng.randrange(a, hi + 1)
                ranges.add((a, b))
        else:
            for a in (lo, lo + 1, -1, 0, 1, hi - 1, hi):
                for b in (lo, lo + 1, -1, 0, 1, 2, 7, 8, 15, 16, 100, hi - 1, hi):
                    if lo <= a <= b <= hi:
                        ranges.add((a, b))
            while len(ranges) < (45 if tier == "quick" else 400):
                a = rng.randrange(lo, hi + 1)
                b = rng.randrange(a, hi + 1)
                ranges.add((a, b))
        for a, b in sorted(ranges):
            out.append({"id": "c18-small-%s-%d-%d" % (kind, a, b), "mode": "small", "gen": g(kind + "Range", min=str(a), max=str(b)),
                        "fallback": 20000 if tier == "quick" else 200000})
        out.append({"id": "c18-small-%s-full" % kind, "mode": "small", "gen": g(kind), "fallback": 200000})
    # (2) wider kinds: chosen values of ranges placed at the type extremes, reached constructively
    for kind in ("Int16", "Int32", "Int64", "Int", "Uint16", "Uint32", "Uint64", "Uint", "Uintptr"):
        lo, hi = krange(kind)
        signed, bits_ = INT_KINDS[kind]
        rs = [(lo, hi), (lo, lo + 1000), (hi - 1000, hi), (lo, lo + (1 << (bits_ - 2))), (hi - (1 << (bits_ - 2)), hi), (lo + 1, hi - 1)]
        if signed:
            rs += [(-1000, 1000), (lo, 0), (0, hi), (lo, -1), (-(1 << (bits_ - 2)), 1 << (bits_ - 2))]
        else:
            rs += [(0, 1 << (bits_ - 1)), ((1 << (bits_ - 1)) - 1, hi), (1, hi), (0, hi - 1)]
        for j in range(3 if tier == "quick" else 30):
            a = rand_in(rng, lo, hi)
            b = rand_in(rng, lo, hi)
            rs.append((min(a, b), max(a, b)))
        for a, b in rs:
            span = b - a
            bl = span.bit_length()
            ts = {a, b, min(a + 1, b), max(b - 1, a), a + span // 2, a + span // 3}
            if bl >= 1:
                ts |= {min(b, a + (1 << (bl - 1))), min(b, a + (1 << (bl - 1)) + 1), max(a, b - 1), max(a, b - 2)}
            if a <= 0 <= b:
                ts |= {0, max(a, -1), min(b, 1)}
            if signed and a < 0 < b:
                # the two sides are decoded separately: top bands of both
                nb, pb = (-a - 1).bit_length(), b.bit_length()
                if nb >= 1:
                    ts |= {max(a, -(1 << (nb - 1)) - 1), max(a, -(1 << (nb - 1)) - 2)}
                if pb >= 1:
                    ts |= {min(b, 1 << (pb - 1)), min(b, (1 << (pb - 1)) + 1)}
            for _ in range(4):
                ts.add(rng.randrange(a, b + 1))
            out.append({"id": "c18-wide-%s-%d-%d" % (kind, a, b), "mode": "wide", "gen": g(kind + "Range", min=str(a), max=str(b)),
                        "targets": [str(t) for t in sorted(ts)], "fallback": 20000 if tier == "quick" else 200000})
    # (2b) float ranges of a few adjacent values (within a binade, across a binade boundary, subnormal, huge, negative): every value can be drawn
    import struct

    def f64_step(x, n):
        b = struct.unpack("<q", struct.pack("<d", x))[0]
        return struct.unpack("<d", struct.pack("<q", b + n))[0]

    def f32_step(x, n):
        b = struct.unpack("<i", struct.pack("<f", x))[0]
        return struct.unpack("<f", struct.pack("<i", b + n))[0]

    def fbits(x):
        return "bits:0x%016x" % struct.unpack("<Q", struct.pack("<d", x))[0]
    bases = [1.0, 1.5, 1.75, 100.0, 3.0e10, 1e-300, 1e300, 0.1, 5e-324, 2.0 ** -1022, 123456.789]
    counts = [2, 3, 8, 16, 33, 64]
    nfl = 0
    for base in bases if tier == "thorough" else bases[:7]:
        for n in counts if tier == "thorough" else rng.sample(counts, 3):
            for neg in (False, True):
                for back in ((0,) if tier == "quick" else (0, n // 2)):      # start `back` values below the base: ranges across a power of two
                    if base in (5e-324,) and back:
                        continue
                    if tier == "quick" and neg and nfl % 3:
                        nfl += 1
                        continue
                    nfl += 1
                    lo = f64_step(base, -back)
                    hi = f64_step(lo, n - 1)
                    a, b = (fbits(-hi), fbits(-lo)) if neg else (fbits(lo), fbits(hi))
                    out.append({"id": "c18-floats64-%g-%d-%s-%d" % (base, n, "neg" if neg else "pos", back), "mode": "floats",
                                "gen": g("Float64Range", min=a, max=b), "fallback": 60000 if tier == "quick" else 400000})
    for base in [1.0, 1.5, 1000.0, 1e-30, 3e38 / 2] if tier == "thorough" else [1.0, 1.5, 1000.0]:
        for n in counts if tier == "thorough" else rng.sample(counts, 2):
            lo = f32_step(base, 0)
            hi = f32_step(lo, n - 1)
            out.append({"id": "c18-floats32-%g-%d" % (base, n), "mode": "floats", "gen": g("Float32Range", min="%.17g" % lo, max="%.17g" % hi),
                        "fallback": 60000 if tier == "quick" else 400000})
    # (3) edges within a few thousand draws
    for i in range(60 if tier == "quick" else 1500):
        gen = int_gen(rng) if i % 3 else float_gen(rng)
        out.append({"id": "c18-edge-%d-%s" % (i, gen["k"]), "mode": "edge", "gen": gen, "draws": 5000})
    # (4) fresh seeds: many Check calls in one process, with an ignored fail file present, and in separate processes
    out.append({"id": "c18-fresh-inproc", "mode": "fresh", "k": 30 if tier == "quick" else 300})
    out.append({"id": "c18-fresh-stale", "mode": "fresh", "k": 20 if tier == "quick" else 100, "stale": True})
    out.append({"id": "c18-fresh-procs", "mode": "fresh", "k": 4 if tier == "quick" else 16, "procs": True})
    out.append({"id": "c18-fresh-makecheck-reused", "mode": "fresh", "k": 12 if tier == "quick" else 100, "reuse": True})
    out.append({"id": "c18-fresh-parallel", "mode": "fresh", "k": 1500 if tier == "quick" else 12000, "parallel": 12})
    out.append({"id": "c18-fresh-procs-noautoseed", "mode": "fresh", "k": 4 if tier == "quick" else 16, "procs": True, "noAutoSeed": True})
    return out


def rule_reach(evs):
    for e in evs:
        if e["ev"] == "reach":
            return f"{e['gen']}[{e['min']},{e['max']}]: {e['want']} values wanted, {e['calls']} structured inputs, {e['structuredMissing']} left to {e['fallbackDraws']} PRNG draws, missing {e['missing']}"
        if e["ev"] == "edge":
            return f"{e['gen']}[{e['min']},{e['max']}]: min first hit at draw {e['firstMin']}, max at {e['firstMax']}, zero in range: {e['zeroIn']}"
        if e["ev"] == "fresh":
            return f"{len(e['seeds'])} Check calls (stale file: {e['stale']}, processes: {e['procs']}): {len(set(e['seeds']))} distinct first draws"
    return None


def run_c18(tier, seed, replay, keep):
    return generic_run("C18", tier, seed, replay, keep, c18_scenarios(tier, seed), rule_reach,
                       "one case = one range: (small) every value of an 8-bit range of Byte/Int8/Uint8 (quick: ranges at the type extremes + a sample; thorough: 6 000 ranges each of Uint8 and Int8 -- all with an end at or next to an extreme or zero, all of up to 4 values, a sample of the rest) "
                       "over sign coin x 36 bias words x all 256 bits words through MakeFuzz, what is missed searched with PRNG draws; (wide) ~15 chosen values (ends, middle, top bit band) of ranges "
                       "of every wider kind at the type extremes, reached from the model's witness (width = bit length of the distance, bits word = the distance); (edge) min, max and 0 hit "
                       "within 5000 PRNG draws for random int and float ranges; (fresh) 30 Check calls without -rapid.seed in one process, with an ignored fail file present, and in 4 processes",
                       ["edge hits and fresh seeds are statistical observations (per-draw edge probability >= ~1%: P(no hit in 5000 draws) < 1e-20; seed collisions <= K^2/2^64)",
                        "structured inputs use knowledge of the encoding (order coin, bias, bits; geometric bias draw); a value they miss is searched with PRNG draws before it counts as unreachable",
                        "design models: IntGen (width table for all 64 bit lengths, reachability and monotonicity exhaustively at widths <= 4/5)"],
                       INT_MC, mode="reach")
