"""Scenario generators: what the harness runs on the real code.  Scenarios are
JSON scripts for the property interpreter; the specification decides."""
import itertools
import json
import os
import random
import re

from . import core


def g(k, **kw):
    d = {"k": k}
    d.update(kw)
    return d


def IntRange(a, b):
    return g("IntRange", min=str(a), max=str(b))


def draw(gen, label, var=None):
    d = {"op": "draw", "gen": gen, "label": label}
    if var:
        d["var"] = var
    return d


def iff(var, cmp, val, then, els=None):
    d = {"op": "if", "cond": {"var": var, "cmp": cmp, "val": str(val)}, "body": then}
    if els:
        d["else"] = els
    return d


def op(name, **kw):
    d = {"op": name}
    d.update(kw)
    return d


def scenario(sid, prop, flags=None, runs=None, name=None, tag=None, entry=None):
    s = {"id": sid, "prop": prop}
    if flags:
        s["flags"] = {k: str(v) for k, v in flags.items()}
    if runs:
        s["runs"] = runs
    if name:
        s["name"] = name
    if tag:
        s["tag"] = tag
    if entry:
        s["entry"] = entry
    return s


def rapid_version():
    with open(os.path.join(core.REPO, "persist.go")) as f:
        m = re.search(r'rapidVersion\s*=\s*"([^"]+)"', f.read())
    return m.group(1) if m else "v0.4.8"


def failfile_text(words, seed=0, version=None, comments=("# output",)):
    version = version or rapid_version()
    lines = list(comments) + ["%s#%d" % (version, seed)] + ["0x%x" % w for w in words]
    return "\n".join(lines)


def safe_name(name):
    out = "".join(c if (c.isalpha() or c.isdigit() or c in "-_") else "_" for c in name)
    up = out.upper()
    reserved = ["CON", "PRN", "AUX", "NUL"] + ["COM%s" % d for d in "0123456789¹²³"] + ["LPT%s" % d for d in "0123456789¹²³"]
    return out + "_" if up in reserved else out


def ff_path(name, suffix="x"):
    s = safe_name(name)
    return "testdata/rapid/%s/%s-%s.fail" % (s, s, suffix)


# ---------------------------------------------------------------------------
# property templates (bodies).  Every body is deterministic in its draws.

def t_threshold(kind="Int64", k=1000, how="fatalf", site=1, cmp="ge"):
    return [draw(g(kind), "x", "x"), iff("x", cmp, k, [op(how, site=site)])]


def t_distinct(how="fatalf"):
    # rejection-based: duplicates are rejected, a forced stop is likely (the D1 pattern)
    return [draw(g("SliceOfDistinct", elem=IntRange(0, 2)), "s", "s"), draw(g("Int"), "y", "y"), draw(g("Int"), "z", "z"),
            iff("s", "lenge", 3, [op(how, site=2)])]


def t_map():
    return [draw(g("MapOfN", key=g("Int8Range", min="0", max="2"), val=g("Int16"), minLen=0, maxLen=3), "m", "m"),
            draw(g("Uint8"), "u"), iff("m", "lenge", 2, [op("errorf", text="map")])]


def t_string():
    return [draw(g("StringN", minLen=-1, maxLen=-1, maxBytes=4), "s", "s"), draw(g("Int"), "y"),
            iff("s", "lenge", 2, [op("panic", val="error", site=3)])]


def t_filter():
    return [draw(g("Filter", elem=IntRange(0, 1000), pred="mod3"), "x", "x"), draw(g("SliceOf", elem=g("Bool")), "b"),
            iff("x", "ge", 300, [op("failnow", site=0)])]


def t_sampled():
    return [draw(g("SampledFrom", items=["1", "2", "3"]), "c", "c"), draw(g("Int32"), "v", "v"),
            iff("c", "ge", 2, [iff("v", "ge", 77, [op("fatal", site=1)])])]


def t_multisite():
    # smaller inputs reach a different site: the minimizer must not wander off
    return [draw(g("Int"), "x", "x"), draw(g("Int"), "y", "y"),
            iff("x", "ge", 100000, [op("fatalf", site=1)]),
            iff("x", "ge", 50, [iff("y", "ge", 7, [op("fatalf", site=2)])]),
            iff("y", "le", -1000, [op("panic", val="string", site=3)]),
            iff("x", "le", -5, [op("errorf", text="neg")])]


def t_errorf_then_panic():
    return [draw(g("Int"), "x", "x"), iff("x", "ge", 16, [op("errorf", text="soft")]),
            iff("x", "ge", 1048576, [op("panic", val="string", site=2)])]


def t_nonfatal():
    return [draw(g("Uint16"), "x", "x"), iff("x", "ge", 300, [op("errorf", text="big")]), draw(g("Bool"), "b")]


def t_rterr(kind="index"):
    return [draw(g("Int8"), "x", "x"), iff("x", "ge", 20, [op("rterr", val=kind, site=1)])]


def t_sm():
    return [op("setvar", var="n", val="0"),
            op("repeat", actions={
                "inc": [draw(g("Bool"), "b"), op("incvar", var="n")],
                "skipafter": [draw(IntRange(0, 9), "r"), op("skip")],
                "skipbefore": [iff("n", "ge", 2, [op("skip")]), draw(g("Byte"), "q")],
                "boom": [iff("n", "ge", 3, [op("fatalf", site=1)]), draw(g("Bool"), "c")]},
               inv=[iff("n", "ge", 100, [op("fatalf", site=2)])])]


def t_sm_case():
    """a machine whose action keys differ only in capitalisation (methods Push / push of a wrapper, say): they are different actions"""
    return [op("setvar", var="n", val="0"),
            op("repeat", actions={
                "Push": [draw(g("Bool"), "b"), op("incvar", var="n")],
                "push": [draw(g("Byte"), "q")],
                "PUSH": [iff("n", "ge", 3, [op("fatalf", site=1)]), draw(g("Bool"), "c")],
                "pUSH": [draw(IntRange(0, 9), "r"), op("skip")]})]


def t_custom_cleanup_rejected():
    """a Custom attempt registers a cleanup that reports a leak (non-fatally) and is then rejected: the failure is that attempt's, and stays in the recording"""
    return [draw(g("Int8"), "p"),
            draw(g("Custom", elem=g("Int8"), body=[draw(IntRange(0, 9), "a", "a"), op("cleanup", body=[iff("a", "le", 1, [op("errorf", text="leak")])]),
                                                   iff("a", "le", 3, [op("skip")])], fresh=True), "c"),
            draw(g("SliceOfN", elem=g("Byte"), minLen=0, maxLen=3), "s")]


def t_custom():
    return [draw(g("Custom", elem=g("Int16"), body=[draw(IntRange(0, 5), "a", "a"), iff("a", "le", 1, [op("skip")]),
                                                      op("cleanup", body=[op("ctx")])]), "c", "c"),
            iff("c", "ge", 200, [op("fatalf", site=1)])]


def t_ctx():
    return [op("cleanup", body=[op("ctx")]), op("ctxlive"), draw(g("Int"), "x", "x"), iff("x", "ge", 100000, [op("fatalf", site=1)])]


def t_makemap():
    # a map built by Make over a tiny key domain: duplicate keys are drawn and rejected
    return [draw(g("Make", type="mapboolint"), "m", "m"), draw(g("Int8"), "t"), iff("m", "anyge", 1000, [op("fatalf", site=1)])]


def t_custom_empty():
    # a Custom function that draws nothing for n = 0 (a misuse the library answers with an assertion, reproducibly)
    return [draw(IntRange(0, 3), "n", "n"), op("share", var="n"), draw(g("CustomShared", fn="n"), "c", "c"), draw(g("Int16"), "x", "x"),
            iff("x", "ge", 100, [op("fatalf", site=1)])]


def t_sm2():
    # exactly two named actions and no invariant
    return [op("setvar", var="n", val="0"),
            op("repeat", actions={"left": [draw(g("Bool"), "b"), op("incvar", var="n")], "right": [draw(g("Byte"), "c", "c"), iff("c", "ge", 200, [op("fatalf", site=1)])]}),
            draw(g("Int8"), "after")]


def t_cleanup_skip_errorf():
    return [draw(g("Int"), "x", "x"), op("cleanup", body=[iff("x", "ge", 1000, [op("errorf", text="from first cleanup")])]),
            op("cleanup", body=[iff("x", "ge", 1000, [op("skip")])])]


def t_regexp_retry():
    # regexps whose expansion can fail the final match, so that whole attempts are rejected and retried
    return [draw(g("StringMatching", expr="[a-c]\\b[ab -]"), "r", "r"), draw(g("SliceOfBytesMatching", expr="^x?\\bfo[o ]\\b|[a-z]$"), "rb"), draw(g("Int8"), "t", "t"),
            iff("t", "ge", 50, [op("fatalf", site=1)])]


def t_custom_hard():
    # a Custom function that draws from a Filter which often runs out of tries: the attempt of the Custom generator is then rejected as a whole
    # (from inside a nested draw) and retried; the same inside a collection
    hard = g("Custom", elem=g("Int8"), body=[draw(g("Filter", elem=IntRange(0, 20), pred="rare"), "f"), draw(g("Bool"), "i")])
    return [draw(hard, "c"), draw(g("SliceOfN", elem=hard, minLen=0, maxLen=3), "cs"), draw(g("Int16"), "t", "t"), draw(g("SliceOf", elem=g("Byte")), "tail"),
            iff("t", "ge", 50, [op("fatalf", site=1)])]


def t_custom_fatal():
    # the failure is raised inside the Custom generator function / inside a Filter predicate, after it has drawn: those draws belong to the failing test case
    return [draw(g("Int8"), "p"),
            draw(g("Custom", elem=g("Int16"), body=[draw(IntRange(0, 9), "a", "a"), iff("a", "le", 1, [op("skip")]), draw(g("Int16"), "w", "w"),
                                                    iff("w", "ge", 100, [op("fatalf", site=3)])]), "c"),
            draw(g("SliceOf", elem=g("Byte")), "tail")]


def t_cleanup_fatal():
    # two ways to fail: fatally from a cleanup function (big inputs), and non-fatally in the body (almost every input).  The failure found first is
    # almost always the fatal one; minimization must stay with it
    return [draw(g("Int16"), "x", "x"), draw(g("SliceOf", elem=g("Byte")), "s"),
            op("cleanup", body=[iff("x", "ge", 500, [op("fatalf", site=2)])]),
            op("cleanup", body=[op("ctx")]),
            iff("x", "ge", 3, [op("errorf", text="small")])]


def t_datamsg():
    # failures whose message / panic value shows the drawn data: the same site all the same
    return [draw(g("Int32"), "x", "x"), draw(g("SliceOfN", elem=g("Byte"), minLen=0, maxLen=6), "s", "s"),
            iff("x", "ge", 70000, [op("panic", site=1, val="data", var="x")]),
            iff("x", "le", -70000, [op("rterr", site=2, val="indexv", var="x")]),
            iff("s", "lenge", 4, [op("fatalf", site=3, var="s")]),
            iff("x", "mod2", 1, [op("errorf", text="odd", var="x")])]


def t_sm_hard():
    # a state machine with an action whose first draw comes from a Filter that often runs out of tries (the action then counts as skipped,
    # although bits were consumed), followed by more draws and the failure
    return [op("setvar", var="n", val="0"),
            op("repeat", actions={"hard": [draw(g("Filter", elem=IntRange(0, 20), pred="rare"), "f"), op("incvar", var="n")],
                                  "easy": [draw(g("Bool"), "b"), op("incvar", var="n")],
                                  "hardc": [draw(g("Custom", elem=g("Int8"), body=[draw(g("Filter", elem=IntRange(0, 20), pred="rare"), "cf")]), "c")]}),
            draw(g("Int16"), "t", "t"), draw(g("SliceOf", elem=g("Byte")), "tail"), iff("t", "ge", 50, [op("fatalf", site=1)])]


def t_filter_panics():
    return [draw(g("Int8"), "p"), draw(g("Filter", elem=IntRange(0, 1000), pred="boom"), "f"), draw(g("SliceOf", elem=g("Byte")), "tail")]


TEMPLATES = {
    "custom_fatal": t_custom_fatal, "filter_panics": t_filter_panics, "cleanup_fatal": t_cleanup_fatal, "datamsg": t_datamsg, "sm_hard": t_sm_hard,
    "custom_hard": t_custom_hard,
    "makemap": t_makemap, "custom_empty": t_custom_empty, "sm2": t_sm2, "cleanup_skip_errorf": t_cleanup_skip_errorf, "regexp_retry": t_regexp_retry,
    "ctx": t_ctx,
    "threshold": lambda: t_threshold(), "threshold_u8": lambda: t_threshold("Uint8", 200), "threshold_neg": lambda: t_threshold("Int32", -5000, cmp="le"),
    "distinct": t_distinct, "map": t_map, "string": t_string, "filter": t_filter, "sampled": t_sampled,
    "multisite": t_multisite, "errorf_then_panic": t_errorf_then_panic, "nonfatal": t_nonfatal,
    "rterr_index": lambda: t_rterr("index"), "rterr_nilmap": lambda: t_rterr("nilmap"), "rterr_div": lambda: t_rterr("div"),
    "sm": t_sm, "sm_case": t_sm_case, "custom_cleanup_rejected": t_custom_cleanup_rejected, "custom": t_custom, "panic_struct": lambda: t_threshold("Int16", 99, "panic"),
}


def seeds(rng, n):
    out = []
    for i in range(n):
        r = rng.random()
        if r < 0.1:
            out.append(rng.randrange(1, 50))
        elif r < 0.2:
            out.append((1 << 64) - rng.randrange(1, 200))   # cross the wrap-around of the schedule
        else:
            out.append(rng.randrange(1, 1 << 64))
    return out


def c01(tier, seed):
    rng = random.Random(seed)
    out = []
    # rejection-based generators with minimization cut at once: the reported case is the pruned original,
    # which must replay (forced stops, duplicate keys, over-long strings, skipped actions)
    for tn in ("distinct", "map", "string", "sm", "sm_case", "custom", "filter", "makemap", "regexp_retry", "sm2", "custom_hard", "custom_fatal", "filter_panics", "sm_hard"):
        for sd in seeds(rng, (14 if tn != "custom_hard" else 70) if tier == "quick" else 150):
            out.append(scenario("c01-pruned-%s-%d-%d" % (tn, sd, len(out)), {"body": TEMPLATES[tn]()},
                                {"checks": 100, "seed": sd, "nofailfile": "true", "shrinktime": "0s"}, tag={"template": tn, "shrink": "0s"}))
    # a failure reproduced from a fail file is attributed to that file (the one whose test case is presented), also when -rapid.failfile names another, stale one
    for i in range(3 if tier == "quick" else 30):
        path = "elsewhere/other.fail"
        stale = [failfile_text([0] * 12), failfile_text([9, 9], version="v0.0.1"), "garbage"][i % 3]
        runs = [{}, {"files": [{"path": path, "text": stale}], "flags": {"failfile": path}}]
        out.append(scenario("c01-ff-attribution-%d" % i, {"body": t_threshold("Int64", 1000)}, {"checks": 100, "seed": rng.randrange(1, 1 << 64)},
                            runs=runs, name="TestAttribution", tag={"template": "threshold", "shrink": "full", "runs": 2}))
    names = sorted(TEMPLATES)
    nseeds = 3 if tier == "quick" else 25
    for tn in names:
        for sd in seeds(rng, nseeds):
            for checks in ((100,) if tier == "quick" else (5, 100)):
                mode = rng.choice(["0s", "full", "cut"]) if tier == "quick" else None
                for st in ([mode] if mode else ["0s", "full", "cut", "cut"]):
                    prop = {"body": TEMPLATES[tn]()}
                    fl = {"checks": checks, "seed": sd, "nofailfile": rng.choice(["true", "false"])}
                    if len(out) % 4 == 0:
                        fl["v"] = "true"
                    tag = {"template": tn, "shrink": st}
                    if st == "0s":
                        fl["shrinktime"] = "0s"
                    elif st == "cut":
                        fl["shrinktime"] = "60ms"
                        prop["sleepAt"] = rng.randrange(1, 40)
                        prop["sleepMs"] = 90
                        tag["cutAt"] = prop["sleepAt"]
                    out.append(scenario("c01-%s-%d-%d-%s-%d" % (tn, sd, checks, st, len(out)), prop, fl, tag=tag))
    return out + random_scripts("c01", tier, seed, 50, 1500)


# ---------------------------------------------------------------------------
# C02: failure kind x callback context x position

KINDS = [("errorf", {}), ("error", {}), ("fail", {}), ("errorf0", {}), ("errornl", {}), ("fatalf", {}), ("fatal", {}), ("failnow", {}),
         ("panic", {"val": "string"}), ("panic", {"val": "error"}), ("panic", {"val": "struct"}), ("panic", {"val": "int"}),
         ("rterr", {"val": "nilmap"}), ("rterr", {"val": "index"}), ("rterr", {"val": "div"})]
NONFATAL = {"errorf", "error", "fail", "errorf0", "errornl"}


def sig_op(kind, extra, site=1):
    if kind == "errorf0":
        return {"op": "error0"}
    if kind == "errornl":
        return {"op": "errornl", "n": site % 2}
    d = {"op": kind, "site": site}
    d.update(extra)
    return d


def in_context(ctx, sig):
    if ctx == "body":
        return [draw(g("Bool"), "b"), sig]
    if ctx == "body_skip":
        return [sig, op("skip")]
    if ctx == "cleanup":
        return [op("cleanup", body=[sig]), draw(g("Bool"), "b")]
    if ctx == "cleanup_then_skip":
        return [op("cleanup", body=[sig]), op("skip")]
    if ctx == "custom":
        return [draw(g("Custom", elem=g("Int8"), body=[sig], fresh=True), "c")]
    if ctx == "custom_retry":
        return [draw(g("Custom", elem=g("Int8"), fresh=True,
                       body=[draw(IntRange(0, 3), "a", "a"), iff("a", "le", 1, [op("skip")]), sig]), "c")]
    if ctx == "custom_cleanup":
        return [draw(g("Custom", elem=g("Int8"), body=[op("cleanup", body=[sig])], fresh=True), "c")]
    if ctx == "custom_skip":
        return [draw(g("Custom", elem=g("Int8"), body=[sig, op("skip")], fresh=True), "c")]
    if ctx == "action":
        return [op("repeat", actions={"a": [draw(g("Bool"), "b"), sig]})]
    if ctx == "inv0":
        return [op("repeat", actions={"a": [draw(g("Bool"), "b")]}, inv=[sig])]
    if ctx == "inv_after":
        return [op("setvar", var="n", val="0"),
                op("repeat", actions={"a": [draw(g("Bool"), "b"), op("incvar", var="n")]}, inv=[iff("n", "ge", 1, [sig])])]
    if ctx == "goroutine":
        return [op("go", body=[sig], n=2), draw(g("Bool"), "b")]
    if ctx == "custom_in_action":
        return [op("repeat", actions={"a": [draw(g("Custom", elem=g("Int8"), body=[sig], fresh=True), "c")]})]
    if ctx == "then_custom":   # a non-fatal failure followed by a successful draw from a Custom generator
        return [sig, draw(g("Custom", elem=g("Int8"), body=[], fresh=True), "c")]
    if ctx == "action_then_custom":
        return [op("repeat", actions={"a": [sig, draw(g("Custom", elem=g("Int8"), body=[], fresh=True), "c")]})]
    if ctx == "cleanup_skip_after":
        return [op("cleanup", body=[op("skip")]), sig]
    if ctx == "cleanup_after_skipping_cleanup":   # the cleanup that runs first skips the test case, one that runs after it fails
        return [op("cleanup", body=[sig]), op("cleanup", body=[op("skip")]), draw(g("Bool"), "b")]
    if ctx == "custom_cleanup_after_skipping_cleanup":
        return [draw(g("Custom", elem=g("Int8"), body=[op("cleanup", body=[sig]), op("cleanup", body=[op("skip")])], fresh=True), "c")]
    if ctx == "custom_cleanup_skip_after":   # inside a Custom function: a cleanup registered there skips, then the function fails
        return [draw(g("Custom", elem=g("Int8"), body=[op("cleanup", body=[op("skip")]), sig], fresh=True), "c")]
    if ctx == "action_cleanup_skip_after":
        return [op("repeat", actions={"a": [draw(g("Bool"), "b"), op("cleanup", body=[op("skip")]), sig]})]
    # the property's own code swallows the panic that carries a fatal signal (a deferred recover() around a callback)
    if ctx == "recovered":
        return [op("recover", body=[sig]), draw(g("Bool"), "b")]
    if ctx == "action_recovered":
        return [op("repeat", actions={"a": [draw(g("Bool"), "b"), op("recover", body=[sig])]})]
    if ctx == "custom_recovered":
        return [draw(g("Custom", elem=g("Int8"), body=[op("recover", body=[sig])], fresh=True), "c")]
    if ctx == "cleanup_recovered":
        return [op("cleanup", body=[op("recover", body=[sig])]), draw(g("Bool"), "b")]
    raise KeyError(ctx)


CONTEXTS = ["body", "body_skip", "cleanup", "cleanup_then_skip", "custom", "custom_retry", "custom_cleanup", "custom_skip",
            "action", "inv0", "inv_after", "goroutine", "custom_in_action", "cleanup_skip_after", "then_custom", "action_then_custom",
            "recovered", "action_recovered", "custom_recovered", "cleanup_recovered", "custom_cleanup_skip_after", "action_cleanup_skip_after",
            "cleanup_after_skipping_cleanup", "custom_cleanup_after_skipping_cleanup"]
POSITIONS = ["first", "middle", "last", "after_skips"]


def c02(tier, seed):
    rng = random.Random(seed)
    out = []
    reps = 1 if tier == "quick" else 6
    for rep in range(reps):
        for (kind, extra), ctx, pos in itertools.product(KINDS, CONTEXTS, POSITIONS):
            nonfatal = kind in NONFATAL
            if ctx in ("body_skip", "goroutine", "custom_skip", "then_custom", "action_then_custom") and not nonfatal:
                continue   # a fatal signal ends the call; fatal calls from other goroutines are outside the statement
            if ctx.endswith("recovered") and kind not in ("fatalf", "fatal", "failnow"):
                continue   # only a signal raised through *T is a falsification once its panic is swallowed
            if tier == "quick" and pos == "after_skips" and ctx not in ("body", "cleanup", "custom"):
                continue
            sig = sig_op(kind, extra)
            cases = {}
            if pos == "first":
                checks, idx = 3, 1
            elif pos == "middle":
                checks, idx = 5, 3
            elif pos == "last":
                checks, idx = 4, 4
            else:
                checks, idx = 2, 16
                for i in range(1, 16):
                    cases[str(i)] = [op("skip")]
            cases[str(idx)] = in_context(ctx, sig)
            fl = {"checks": checks, "seed": rng.randrange(1, 1 << 64), "nofailfile": "true",
                  "shrinktime": "0s" if (tier == "quick" or rep % 2 == 0) else "300ms"}
            entry = None
            out.append(scenario("c02-%s%s-%s-%s-%d" % (kind, extra.get("val", ""), ctx, pos, rep),
                                {"keyed": True, "cases": cases, "default": [draw(g("Bool"), "d")]}, fl,
                                tag={"kind": kind + extra.get("val", ""), "ctx": ctx, "pos": pos}, entry=entry))
    # a test case that falsifies the property only the first time it is executed (a property that is not a function of its
    # draws): found in the random phase, or when a fail file is replayed -- Check must still fail the test
    for j, kind in enumerate(["fatalf", "errorf", "panic", "failnow"]):
        for variant in ("failfile", "random"):
            for rep in range(reps):
                flaky = [draw(g("Int8"), "x"), op("nth", text="once", n=1, body=[op(kind, site=1)])]
                if variant == "failfile":
                    runs = [{"prop": {"body": [draw(g("Int8"), "x"), op("fatalf", site=2)]}}, {"prop": {"body": flaky}}]
                else:
                    runs = [{"prop": {"body": flaky}}]
                out.append(scenario("c02-once-%s-%s-%d" % (kind, variant, rep), {"body": flaky},
                                    {"checks": 5, "seed": rng.randrange(1, 1 << 64), "shrinktime": "0s"}, runs=runs, name="TestOnce",
                                    tag={"kind": kind, "ctx": "first execution only", "pos": variant}))
    return out + random_scripts("c02", tier, seed, 60, 2000, flags={"nofailfile": "true"}, tag={"kind": "random", "ctx": "random", "pos": "random"})


def c02_deadline(tier, seed):
    """A test case that falsifies the property slowly, close to the test deadline (MakeCheck under a real *testing.T, harness started
    with -test.timeout): whatever Check decides about stopping early, an executed falsifying test case must fail the test."""
    rng = random.Random(seed + 2)
    out = []
    for kind in ("fatalf", "errorf", "panic"):
        slow_fail = [op("nth", text="slow", n=1, body=[op("sleep", ms=8000)]), op(kind, site=1)]
        out.append(scenario("c02-deadline-%s" % kind, {"keyed": True, "cases": {"6": slow_fail}, "default": [draw(g("Bool"), "d")]},
                            {"checks": 100, "seed": rng.randrange(1, 1 << 64), "nofailfile": "true", "shrinktime": "0s"}, entry="makecheck",
                            name="TestDeadline", tag={"kind": kind, "ctx": "slow case near the test deadline", "pos": "6th", "deadline": True, "timeout": "12s"}))
    return out


# ---------------------------------------------------------------------------
# C11: all sequences of per-case behaviours (the T object is reused across them)

BEHAVIOURS = {
    "E": [op("errorf", text="e")],
    "ES": [op("errorf", text="es"), op("skip")],
    "S": [op("skip")],
    "CE": [op("cleanup", body=[op("errorf", text="ce")])],
    "CuE": [draw(g("Custom", elem=g("Int8"), body=[op("errorf", text="cue")], fresh=True), "c")],
    "P": [draw(g("Bool"), "p")],
    "F": [op("fatalf", site=2)],
    "XC": [op("cleanup", body=[op("ctx")]), op("ctx"), draw(g("Bool"), "p")],   # context sampled in body and in cleanup
    "CS": [op("cleanup", body=[op("skip")]), draw(g("Bool"), "p")],              # the last cleanup to run skips: an invalid test case
    "CN": [op("cleanup", body=[op("errorf", text="cn")]), op("cleanupnil")],    # a nil cleanup registered after a failing one
    "CNP": [op("cleanup", body=[op("ctx")]), op("cleanupnil"), draw(g("Bool"), "p")],
    "CSE": [op("cleanup", body=[op("errorf", text="first registered")]), op("cleanup", body=[op("skip")])],   # the skipping cleanup runs first; the other one must still run now
    "AL": [draw(g("Int8"), ""), draw(g("Bool"), "")],                           # unlabelled draws (draw bookkeeping)
    # a Custom attempt that registers a failing cleanup and is then rejected: its failure is that attempt's, now -- it cannot wait for the test case's end
    "CuCES": [draw(g("Custom", elem=g("Int8"), body=[draw(IntRange(0, 5), "a", "a"), op("cleanup", body=[iff("a", "le", 2, [op("errorf", text="cuces")])]),
                                                     iff("a", "le", 2, [op("skip")])], fresh=True), "c")],
    # a cleanup fails fatally, and the cleanup that runs after it (registered before it) skips: the test case is falsified all the same
    "CFS": [op("cleanup", body=[op("skip")]), op("cleanup", body=[op("fatalf", site=2)]), draw(g("Bool"), "p")],
    # a fatal failure whose panic the property's own code swallows
    "FR": [op("recover", body=[op("fatalf", site=1)]), draw(g("Bool"), "p")],
    # several goroutines of the test case obtain its context for the first time together (held at rapid's gate between fast and slow path)
    "GX": [op("go", n=3, val="ctx.miss", body=[op("ctx", text="goroutine")]), draw(g("Bool"), "p")],
}


def c11(tier, seed):
    rng = random.Random(seed)
    keys = ["E", "ES", "S", "CE", "CuE", "P", "F"]
    seqs = []
    for n in (1, 2, 3, 4):
        seqs += list(itertools.product(keys, repeat=n))
    if tier == "quick":
        short = [s for s in seqs if len(s) <= 2]
        longer = [s for s in seqs if len(s) > 2]
        seqs = short + rng.sample(longer, 260)
    extra = [("XC", "P"), ("XC", "XC", "P"), ("S", "XC", "P"), ("AL", "AL", "P"), ("AL", "S", "AL"), ("ES", "AL", "AL"), ("XC", "AL", "XC"),
             ("CS", "XC", "P"), ("CS", "CS", "XC"), ("XC", "CS", "XC", "P"), ("CN", "P"), ("CNP", "P", "P"), ("CNP", "CN", "P"), ("P", "CN", "P", "P"),
             ("CS", "P", "XC"), ("CNP", "XC", "P"), ("CSE", "P"), ("CSE", "P", "P"), ("P", "CSE", "XC"), ("CSE", "CSE", "P"),
             ("GX", "P"), ("GX", "GX", "XC"), ("XC", "GX", "P"), ("GX", "S", "GX", "P"), ("GX", "XC", "AL"),
             ("CFS", "P"), ("P", "CFS", "P"), ("S", "S", "CFS"), ("FR", "P"), ("P", "P", "FR"), ("CS", "FR", "P"),
             ("CuCES", "P"), ("P", "CuCES", "P"), ("CuCES", "CuCES", "P"), ("S", "CuCES", "XC")]
    out = []
    for i, sq in enumerate(list(seqs) + extra):
        cases = {str(j + 1): BEHAVIOURS[b] for j, b in enumerate(sq)}
        fl = {"checks": len(sq) + 2, "seed": rng.randrange(1, 1 << 64), "nofailfile": "true", "shrinktime": "0s",
              "v": "true" if ("AL" in sq or i % 5 == 0) else "false"}
        default = BEHAVIOURS["XC"] + BEHAVIOURS["AL"] if ("XC" in sq or "AL" in sq or "CS" in sq or "GX" in sq) else [draw(g("Bool"), "d")]
        out.append(scenario("c11-%s-%d" % ("_".join(sq), i), {"keyed": True, "cases": cases, "default": default}, fl,
                            tag={"seq": list(sq)}))
    # the test case reported as the falsifying one is the persisted failure that was replayed, not the (passing / unusable) file named with -rapid.failfile
    for i in range(3 if tier == "quick" else 24):
        path = "elsewhere/other.fail"
        text = [failfile_text([0] * 12), failfile_text([9, 9], version="v0.0.1"), None][i % 3]
        runs = [{}, {"files": [{"path": path, "text": text}] if text else [], "flags": {"failfile": path}, "expect": "replay_prev"}]
        out.append(scenario("c11-blamed-file-%d" % i, {"body": t_threshold("Int64", 1000)}, {"checks": 100, "seed": rng.randrange(1, 1 << 64)},
                            runs=runs, name="TestBlamedFile", tag={"seq": ["persisted failure + -rapid.failfile naming another file"]}))
    return out + random_scripts("c11", tier, seed, 50, 1500, flags={"shrinktime": "0s"})


# ---------------------------------------------------------------------------
# C09: the promised amount of work

def c09(tier, seed):
    rng = random.Random(seed)
    out = []
    Ns = [1, 2, 3, 5, 10] if tier == "quick" else [1, 2, 3, 5, 10, 30, 100, 1000]
    ver = rapid_version()
    for N in Ns:
        pats = {
            "never": ({"body": [draw(g("Int"), "x")]}, None),
            "always": ({"body": [draw(g("Int"), "x"), op("skip")]}, None),
            "data": ({"body": [draw(g("Uint8"), "x", "x"), iff("x", "mod2", 0, [op("skip")])]}, None),
            "mostly": ({"body": [draw(IntRange(0, 99), "x", "x"), iff("x", "le", 94, [op("skip")])]}, None),
            # the skip comes from a cleanup function, after the property function has returned normally: the test case does not count either
            "cleanupskip": ({"body": [draw(g("Uint8"), "x", "x"), op("cleanup", body=[iff("x", "mod2", 0, [op("skip")])])]}, None),
            "cleanupskip_always": ({"body": [draw(g("Uint8"), "x"), op("cleanup", body=[op("skip")])]}, None),
            # the skip comes from a state machine's invariant, after an action has run: it skips the test case (not just the step)
            "invskip": ({"body": [op("setvar", var="n", val="0"), op("repeat", actions={"a": [draw(g("Bool"), "b"), op("incvar", var="n")]},
                                                                     inv=[iff("n", "ge", 1, [op("skip")])]), draw(g("Bool"), "after")]}, None),
        }
        if N <= 10:
            alt = {str(i): [op("skip")] for i in range(1, 8 * N, 2)}
            pats["alternating"] = ({"keyed": True, "cases": alt, "default": [draw(g("Bool"), "d")]}, None)
            edge = {str(i): [op("skip")] for i in range(1, 10 * N)}          # 10N-1 skips, then N valid ones
            pats["skip10N-1"] = ({"keyed": True, "cases": edge, "default": [draw(g("Bool"), "d")]}, None)
            over = {str(i): [op("skip")] for i in range(1, 10 * N + 1)}      # 10N skips: budget exhausted first
            pats["skip10N"] = ({"keyed": True, "cases": over, "default": [draw(g("Bool"), "d")]}, None)
            late = {str(i): [op("skip")] for i in range(1, 3 * N)}
            late[str(3 * N + 1)] = [op("fatalf", site=1)]
            pats["fail_after_skips"] = ({"keyed": True, "cases": late, "default": [draw(g("Bool"), "d")]}, None)
        for pn, (prop, _) in pats.items():
            for files in ("none", "passing", "mixed", "explicit"):
                if tier == "quick" and files in ("mixed", "explicit") and N > 3:
                    continue
                name = "TestWork"
                fs = []
                if files != "none":
                    fs.append({"path": ff_path(name, "a"), "text": failfile_text([0, 0, 0, 0, 0, 0])})
                if files == "mixed":
                    fs.append({"path": ff_path(name, "b"), "text": "garbage\x00\xff"})
                    fs.append({"path": ff_path(name, "c"), "text": failfile_text([], version="v0.0.1")})
                    fs.append({"path": ff_path(name, "d"), "text": failfile_text([])})
                fl = {"checks": N, "seed": rng.randrange(1, 1 << 64), "shrinktime": "0s"}
                if len(out) % 3 == 0:
                    fl["v"] = "true"     # the verbose protocol: every random test case announced with number and seed, closed with its outcome
                if files == "passing" and len(out) % 2:
                    fl["nofailfile"] = "true"   # (-rapid.nofailfile only keeps Check from writing: files found are still replayed)
                if files == "explicit":   # -rapid.failfile names one more file: the ones found in the test's directory are still replayed
                    fs.append({"path": "elsewhere/e.fail", "text": failfile_text([0, 0, 0])})
                    fl["failfile"] = "elsewhere/e.fail"
                out.append(scenario("c09-N%d-%s-%s" % (N, pn, files), prop, fl, runs=[{"files": fs}], name=name,
                                    tag={"N": N, "pattern": pn, "files": files}))
                if files == "none" and pn in ("never", "data", "always", "skip10N-1"):
                    # the same through MakeCheck under a real *testing.T (no test deadline: the harness runs with -test.timeout=0)
                    if pn == "always":
                        continue   # a failing sub-test would fail the harness binary's own run; covered by the recording TB
                    out.append(scenario("c09-mk-N%d-%s" % (N, pn), prop, dict(fl, nofailfile="true"), name=name, entry="makecheck",
                                        tag={"N": N, "pattern": pn, "files": "none", "entry": "makecheck"}))
    # a fail file whose test case fails on the first replay only: still a falsified test case -- no random case afterwards, the test fails
    for j, kind in enumerate(["fatalf", "errorf", "panic"]):
        flaky = [draw(g("Int8"), "x"), op("nth", text="once", n=1, body=[op(kind, site=1)])]
        runs = [{"prop": {"body": [draw(g("Int8"), "x"), op("fatalf", site=2)]}}, {"prop": {"body": flaky}}]
        out.append(scenario("c09-flaky-ff-%s" % kind, {"body": flaky}, {"checks": 7, "seed": rng.randrange(1, 1 << 64), "shrinktime": "0s"},
                            runs=runs, name="TestFlakyFF", tag={"N": 7, "pattern": "fail file fails once", "files": "failing"}))
    return out


def c09_deadline(tier, seed):
    """Scenarios that run under a real test deadline (MakeCheck, the harness binary is started with -test.timeout):
    near the deadline Check may stop early, but only passes if it has at least one valid case."""
    rng = random.Random(seed + 1)
    slow_skip = [draw(g("Bool"), "b"), op("sleep", ms=300), op("skip")]
    slow_pass = [draw(g("Bool"), "b"), op("sleep", ms=300)]
    return [scenario("c09-deadline-allskip", {"body": slow_skip}, {"checks": 1000, "seed": rng.randrange(1, 1 << 64), "nofailfile": "true"}, entry="makecheck",
                     name="TestDeadline", tag={"N": 1000, "pattern": "always skip, deadline near", "deadline": True}),
            scenario("c09-deadline-pass", {"body": slow_pass}, {"checks": 1000, "seed": rng.randrange(1, 1 << 64), "nofailfile": "true"}, entry="makecheck",
                     name="TestDeadline", tag={"N": 1000, "pattern": "never skip, deadline near", "deadline": True})]


# ---------------------------------------------------------------------------
# C07: printed seed reproduces; fixed seed fixes the run

def t_compete():
    """n in 2..3, then n values in 0..3; fails for n=3 with v0=1, v1+v2=3 and for n=2 with v0+v1=3, v0>v1."""
    fail = [op("fatalf", site=1)]
    three = [draw(IntRange(0, 3), "v", "v0"), draw(IntRange(0, 3), "v", "v1"), draw(IntRange(0, 3), "v", "v2"),
             iff("v0", "eq", 1, [iff("v1", "eq", a, [iff("v2", "eq", 3 - a, fail)]) for a in range(4)])]
    two = [draw(IntRange(0, 3), "v", "v0"), draw(IntRange(0, 3), "v", "v1"),
           iff("v0", "eq", 2, [iff("v1", "eq", 1, fail)]), iff("v0", "eq", 3, [iff("v1", "eq", 0, fail)])]
    return [draw(IntRange(2, 3), "n", "n"), iff("n", "eq", 3, three, two)]


def c07(tier, seed):
    rng = random.Random(seed)
    out = []
    n = 8 if tier == "quick" else 80
    # (a) falsify at every index 1..K, also after skipped cases; then re-run with the printed seed
    for sd in seeds(rng, n):
        K = rng.randrange(1, 12)
        cases = {}
        for i in range(1, K):
            if rng.random() < 0.3:
                cases[str(i)] = [op("skip")]
        how = rng.choice(["fatalf", "panic", "errorf", "ES", "CE", "CuE", "fatalfc"]) if len(out) >= 7 else \
            ["fatalf", "panic", "errorf", "ES", "CE", "CuE", "fatalfc"][len(out)]
        tail = {"ES": BEHAVIOURS["ES"], "CE": BEHAVIOURS["CE"], "CuE": BEHAVIOURS["CuE"]}.get(how, [op(how, site=1)])
        body_fail = [draw(g("Int64"), "x", "x"), draw(g("SliceOfN", elem=g("Byte"), minLen=0, maxLen=4), "s")] + tail
        cases[str(K)] = body_fail
        prop = {"keyed": True, "cases": cases, "default": [draw(g("Int64"), "x"), draw(g("Bool"), "d")]}
        fl = {"checks": 20, "seed": sd, "nofailfile": "true", "shrinktime": "0s"}
        out.append(scenario("c07-idx-%d-%d" % (sd, K), prop, fl,
                            runs=[{}, {"seedPrev": True, "expect": "seed_prev"}], tag={"failAt": K, "how": how}))
    # (b) random base seed (flag 0): the printed seed must still reproduce
    for i in range(n):
        tn = rng.choice(["threshold", "distinct", "map", "multisite", "sm", "string"])
        out.append(scenario("c07-rand-%s-%d" % (tn, i), {"body": TEMPLATES[tn]()},
                            {"checks": 100, "seed": 0, "nofailfile": "true", "shrinktime": rng.choice(["0s", "30s"])},
                            runs=[{}, {"seedPrev": True, "expect": "seed_prev"}], tag={"template": tn}))
    # (a') skips and the failure both depend on the data (not on the case's position): the failing case often follows a skipped one
    for sd in seeds(rng, 6 if tier == "quick" else 60):
        body = [draw(g("Uint8"), "x", "x"), iff("x", "mod2", 0, [op("skip")]), draw(g("Int16"), "t", "t"), draw(g("SliceOfN", elem=g("Byte"), minLen=0, maxLen=3), "s"),
                iff("t", "ge", 2000, [op("fatalf", site=1)])]
        out.append(scenario("c07-skipfail-%d" % sd, {"body": body}, {"checks": 500, "seed": sd, "nofailfile": "true", "shrinktime": "0s"},
                            runs=[{}, {"seedPrev": True, "expect": "seed_prev"}], tag={"template": "skip then fail"}))
    # (b') a property that obtains its context in a cleanup function and relies on a live context while it runs
    for sd in seeds(rng, 2 if tier == "quick" else 20):
        out.append(scenario("c07-ctx-%d" % sd, {"body": t_ctx()}, {"checks": 100, "seed": sd, "nofailfile": "true", "shrinktime": "0s"},
                            runs=[{}, {"seedPrev": True, "expect": "seed_prev"}], tag={"template": "ctx"}))
    # (b'') the printed seed reproduces in a NEW process too (nothing a generator remembers from earlier test cases may matter):
    # case-insensitive regexp literals, character classes, Make, Deferred
    for sd in seeds(rng, 4 if tier == "quick" else 40):
        body = [draw(g("StringMatching", expr="(?i)content-length: [0-9]{1,2}"), "h"), draw(g("SliceOfBytesMatching", expr="(?i:etag)[a-f]+"), "e"),
                draw(g("Make", type="map"), "m"), draw(g("Make", type="slice"), "ms"), draw(g("Deferred", elem=g("SliceOf", elem=g("Int8"))), "d"), draw(g("Int16"), "t", "t"),
                iff("t", "ge", 3000, [op("fatalf", site=1)])]
        out.append(scenario("c07-newproc-%d" % sd, {"body": body}, {"checks": 500, "seed": sd, "nofailfile": "true", "shrinktime": "0s"},
                            runs=[{}, {"seedPrev": True, "expect": "seed_prev", "freshProc": True}], tag={"template": "regexp-ci", "freshProc": True}))
    # (c) same fixed seed twice (same process), with unrelated activity in between: identical runs
    for sd in seeds(rng, n):
        tn = rng.choice(sorted(TEMPLATES))
        out.append(scenario("c07-same-%s-%d" % (tn, sd), {"body": TEMPLATES[tn]()},
                            {"checks": rng.choice([5, 100]), "seed": sd, "nofailfile": "true"},
                            runs=[{}, {"expect": "same_run", "warm": rng.sample(["strings", "labels", "check", "failcheck"], 2)}],
                            tag={"template": tn}))
    # two-action state machines without an invariant (the order of the actions must not depend on map iteration)
    for sd in seeds(rng, 3 if tier == "quick" else 30):
        out.append(scenario("c07-sm2-%d" % sd, {"body": t_sm2()}, {"checks": 100, "seed": sd, "nofailfile": "true"},
                            runs=[{}, {"expect": "same_run"}, {"expect": "same_run", "freshProc": True}, {"seedPrev": True, "expect": "seed_prev", "expectRun": 1}],
                            tag={"template": "sm2"}))
    # (c') a property on which two of the minimizer's expensive passes compete (swapping two draws / dropping a draw and lowering the count: each makes
    # the other impossible): the minimized test case still is the same one every time the same seed is used
    for k, sd in enumerate(seeds(rng, 10 if tier == "quick" else 100)):
        out.append(scenario("c07-compete-%d-%d" % (k, sd), {"body": t_compete()}, {"checks": 100, "seed": sd, "nofailfile": "true"},
                            runs=[{}] + [{"expect": "same_run"}] * 5, tag={"template": "competing passes"}))
    # (e) a failure replayed from a fail file: if its message prints a seed, that seed must reproduce the (minimized) case it shows
    for sd in seeds(rng, max(3, n // 2)):
        tn = rng.choice(["threshold", "distinct", "map", "multisite"])
        out.append(scenario("c07-ffseed-%s-%d" % (tn, sd), {"body": TEMPLATES[tn]()}, {"checks": 100, "seed": sd},
                            runs=[{}, {"flags": {"seed": "0"}}, {"seedPrev": True, "expect": "seed_prev", "flags": {"seed": "0"}}], tag={"template": tn, "ffseed": True}))
    # (f) a test function made by MakeCheck before the flags were set (package-level table of sub-tests) and run afterwards: -rapid.seed still fixes the run
    for sd in seeds(rng, 3 if tier == "quick" else 30):
        body = [draw(g("Int64"), "x"), draw(g("SliceOfN", elem=g("Byte"), minLen=0, maxLen=4), "s")]
        out.append(scenario("c07-mkearly-%d" % sd, {"body": body}, {"checks": 10, "seed": sd, "nofailfile": "true"}, entry="makecheck_early",
                            runs=[{}, {"expect": "same_run"}, {"entry": "check", "expect": "same_run"}], name="TestMkEarly", tag={"template": "passing", "entry": "makecheck_early"}))
    # (d') ... whatever other regular expressions the first process has used before (case-sensitive namesakes of case-insensitive classes)
    for sd in seeds(rng, 3 if tier == "quick" else 30):
        body = [draw(g("StringMatching", expr="(?i)[0-9]{2}-[a-f]{3}\\d"), "r"), draw(g("SliceOfBytesMatching", expr="(?i)id\\d+[a-f]"), "rb"), draw(g("Int16"), "t", "t"),
                iff("t", "ge", 3000, [op("fatalf", site=1)])]
        out.append(scenario("c07-proc-classes-%d" % sd, {"body": body}, {"checks": 100, "seed": sd, "nofailfile": "true", "shrinktime": "0s"},
                            runs=[{"warm": ["classes"]}, {"expect": "same_run", "freshProc": True}], tag={"template": "regexp-ci-class", "freshProc": True}))
    # (d) the same fixed seed in a new process: identical run
    for sd in seeds(rng, max(3, n // 2)):
        tn = rng.choice(sorted(TEMPLATES))
        out.append(scenario("c07-proc-%s-%d" % (tn, sd), {"body": TEMPLATES[tn]()},
                            {"checks": rng.choice([5, 100]), "seed": sd, "nofailfile": "true"},
                            runs=[{}, {"expect": "same_run", "freshProc": True}], tag={"template": tn, "freshProc": True}))
    return out


def c07_short(tier, seed):
    """State machines in a process started with -test.short: the printed seed still reproduces, the same seed still gives the same run."""
    rng = random.Random(seed + 7)
    out = []
    for sd in seeds(rng, 5 if tier == "quick" else 30):
        body = [op("repeat", actions={"left": [draw(g("Bool"), "b")], "right": [draw(g("Byte"), "c")]}), draw(g("Int16"), "t", "t"), iff("t", "ge", 3000, [op("fatalf", site=1)])]
        out.append(scenario("c07-short-sm-%d" % sd, {"body": body}, {"checks": 500, "seed": sd, "nofailfile": "true", "shrinktime": "0s", "steps": 30},
                            runs=[{}, {"seedPrev": True, "expect": "seed_prev"}, {"expect": "same_run", "expectRun": 1}], tag={"template": "sm", "short": True}))
    return out


# ---------------------------------------------------------------------------
# C05: same failure, only smaller

def c05(tier, seed):
    rng = random.Random(seed)
    out = []
    n = 12 if tier == "quick" else 300
    tmpl = ["multisite", "errorf_then_panic", "threshold", "distinct", "map", "filter", "sm", "string", "custom", "sampled", "nonfatal",
            "makemap", "custom_empty", "regexp_retry", "sm2", "cleanup_skip_errorf", "custom_hard", "custom_fatal", "filter_panics", "cleanup_fatal", "datamsg", "sm_hard",
            "sm_case", "custom_cleanup_rejected"]
    for i in range(n):
        for tn in tmpl:
            if tier == "quick" and i >= 4 and tn not in ("multisite", "errorf_then_panic", "distinct", "makemap", "custom_empty", "custom_hard", "cleanup_fatal", "datamsg"):
                continue
            prop = {"body": TEMPLATES[tn]()}
            st = rng.choice(["0s", "full", "full", "cut"])
            fl = {"checks": 200, "seed": rng.randrange(1, 1 << 64), "nofailfile": "true"}
            tag = {"template": tn, "shrink": st}
            if st == "0s":
                fl["shrinktime"] = "0s"
            elif st == "cut":
                fl["shrinktime"] = "60ms"
                prop["sleepAt"] = rng.randrange(1, 60)
                prop["sleepMs"] = 90
            out.append(scenario("c05-%s-%d-%s" % (tn, i, st), prop, fl, tag=tag))
    # very long state-machine runs (-rapid.steps=2000) whose actions are rejected after drawing: the stop of the machine is forced, and the forced stop
    # waits for a coin that stops by itself -- with a continue probability this high it may wait in vain.  Whatever is reported must still replay.
    for i in range(15 if tier == "quick" else 90):
        body = [op("repeat", actions={"a": [draw(IntRange(0, 9), "r", "r"), iff("r", "ge", rng.choice([0, 3]), [op("skip")])], "b": [draw(g("Bool"), "w"), op("skip")]}),
                draw(g("Int16"), "t", "t"), draw(g("SliceOf", elem=g("Byte")), "tail"), iff("t", "ge", 50, [op("fatalf", site=1)])]
        st = ["0s", "0s", "full"][i % 3]
        fl = {"checks": 60, "seed": rng.randrange(1, 1 << 64), "nofailfile": "true", "steps": rng.choice([2000, 5000])}
        if st == "0s":
            fl["shrinktime"] = "0s"
        out.append(scenario("c05-longsm-%d-%s" % (i, st), {"body": body}, fl, tag={"template": "long state machine, rejected actions", "shrink": st}))
    return out + random_scripts("c05", tier, seed, 40, 1200, flags={"nofailfile": "true", "checks": 100}, tag={"template": "random", "shrink": "mixed"})


# ---------------------------------------------------------------------------
# C10: contexts and cleanups of every invocation

CLEANUP_KINDS = {
    "plain": lambda: [op("ctx", text="in-cleanup")],
    "panics": lambda: [op("panic", val="string", site=2)],
    "registers": lambda: [op("cleanup", body=[op("ctx", text="in-cleanup")]), op("ctx", text="in-cleanup")],
    "errorf": lambda: [op("errorf", text="from cleanup")],
    "skips": lambda: [op("skip")],
    "nested": lambda: [op("cleanup", body=[op("cleanup", body=[op("ctx", text="in-cleanup")])])],
    # a teardown that draws from a Custom generator whose function uses its context and cleanups: one more invocation, begun while the enclosing one cleans up
    "draws_custom": lambda: [draw(g("Custom", elem=g("Int8"), body=[op("ctx", text="custom"), op("cleanup", body=[op("ctx", text="in-cleanup")]),
                                                                  draw(g("Bool"), "cb"), op("ctx", text="custom")]), "cc")],
    "goexit": lambda: [op("goexit")],       # ends the goroutine without a panic (FailNow of an enclosing testing.T does this)
}
ENDINGS = {
    "ret": [], "skip": [op("skip")], "fatal": [op("fatalf", site=1)], "panic": [op("panic", val="error", site=1)],
    "threshold": [iff("x", "ge", 50, [op("fatalf", site=1)])], "nonfatal": [iff("x", "ge", 50, [op("errorf", text="nf")])],
    "dataskip": [iff("x", "mod2", 0, [op("skip")])],
}


def c10_body(rng):
    ks = sorted(k for k in CLEANUP_KINDS if k != "goexit")
    pick = lambda: CLEANUP_KINDS[rng.choice(ks)]()
    body = [op("ctx", text="body")] if rng.random() < 0.6 else []
    if rng.random() < 0.35:
        # several goroutines obtain the context for the first time together (held at rapid's gate between the fast and the slow path)
        body.append(op("go", n=rng.choice([2, 3, 4]), val="ctx.miss", body=[op("ctx", text="goroutine")]))
    if rng.random() < 0.2:
        body.append(op("cleanupnil"))
    for _ in range(rng.randrange(0, 3)):
        body.append(op("cleanup", body=pick()))
    body.append(draw(g("Int16"), "x", "x"))
    if rng.random() < 0.7:
        cbody = [op("ctx", text="custom")]
        for _ in range(rng.randrange(0, 3)):
            cbody.append(op("cleanup", body=CLEANUP_KINDS[rng.choice(["plain", "registers", "errorf", "nested", "panics"])]()))
        cbody += [draw(IntRange(0, 5), "a", "a"), iff("a", "le", rng.choice([-1, 1, 2]), [op("skip")])]
        if rng.random() < 0.3:
            cbody.append(iff("a", "ge", 5, [op("fatalf", site=3)]))
        body.append(draw(g("Custom", elem=g("Int8"), body=cbody, fresh=rng.random() < 0.5), "c"))
    for _ in range(rng.randrange(0, 3)):
        body.append(op("cleanup", body=pick()))
    if rng.random() < 0.3:
        body.append(op("repeat", actions={"a": [op("cleanup", body=[op("ctx", text="in-cleanup")]), draw(g("Bool"), "b")],
                                          "b": [draw(g("Custom", elem=g("Bool"), body=[op("cleanup", body=[op("ctx", text="in-cleanup")])]), "cb")]}))
    body.append(op("ctx", text="body"))
    return body


def c10(tier, seed):
    rng = random.Random(seed)
    out = []
    n = 40 if tier == "quick" else 1200
    ends = sorted(ENDINGS)
    for i in range(n):
        e = ends[i % len(ends)]
        body = c10_body(rng) + ENDINGS[e]
        fl = {"checks": rng.choice([3, 20, 100]), "seed": rng.randrange(1, 1 << 64), "steps": rng.choice([2, 10]),
              "nofailfile": rng.choice(["true", "false"]), "shrinktime": rng.choice(["0s", "200ms", "30s"])}
        out.append(scenario("c10-%s-%d" % (e, i), {"body": body}, fl, tag={"ending": e}))
    # a cleanup that ends the goroutine without panicking: the earlier-registered cleanups still run
    for i in range(6 if tier == "quick" else 60):
        body = [op("ctx", text="body"), op("cleanup", body=[op("ctx", text="in-cleanup")]), op("cleanup", body=CLEANUP_KINDS[rng.choice(["plain", "registers"])]()),
                draw(g("Custom", elem=g("Int8"), body=[op("cleanup", body=[op("ctx", text="in-cleanup")]),
                                                       op("cleanup", body=[op("goexit")] if i % 2 else [op("ctx", text="in-cleanup")])]), "c"),
                op("cleanup", body=[op("goexit")] if i % 2 == 0 else [op("ctx", text="in-cleanup")]), op("cleanup", body=[op("ctx", text="in-cleanup")])]
        out.append(scenario("c10-goexit-%d" % i, {"body": body}, {"checks": 5, "seed": rng.randrange(1, 1 << 64), "nofailfile": "true"}, tag={"ending": "goexit in cleanup"}))
    # a cleanup function asks for the context (a teardown that takes one): the next invocation on the same T still gets a live context of its own
    for i in range(3 if tier == "quick" else 30):
        body = [op("ctx", text="body"), op("cleanup", body=[op("ctx", text="in-cleanup")]), draw(g("Int16"), "x", "x"), op("ctx", text="body")] + \
               ([op("cleanup", body=[op("ctx", text="in-cleanup")])] if i % 2 else []) + ENDINGS[["ret", "dataskip", "threshold"][i % 3]]
        out.append(scenario("c10-ctx-in-cleanup-%d" % i, {"body": body}, {"checks": 6, "seed": rng.randrange(1, 1 << 64), "nofailfile": "true", "shrinktime": "0s"},
                            tag={"ending": "context used in cleanup"}))
    # a goroutine of the test case (joined by a cleanup) asks for the context -- nobody has so far -- just when the property function returns: it has seen
    # "not cleaning up yet" and is held at rapid's gate before the slow path until the engine pops the first cleanup.  Whatever it is handed must be
    # cancelled by the time the cleanups run, and must not be waiting for the next test case
    for i in range(3 if tier == "quick" else 30):
        body = [op("cleanup", body=[op("join"), op("ctx", text="in-cleanup")]), op("hold", text="ctx.checked", val="cleanup.pop"),
                op("goasync", n=1, body=[op("ctx", text="goroutine")]), op("sleep", ms=3), draw(g("Int16"), "x", "x")] + ENDINGS[["ret", "dataskip", "threshold"][i % 3]]
        out.append(scenario("c10-ctx-first-asked-at-return-%d" % i, {"body": body}, {"checks": 6, "seed": rng.randrange(1, 1 << 64), "nofailfile": "true", "shrinktime": "0s"},
                            tag={"ending": "context first asked for while the function returns"}))
    # several goroutines of one invocation register cleanups at the same time, dozens each (some scenarios also hold them at rapid's gate
    # inside Cleanup's critical section): every one of them runs exactly once
    for i in range(10 if tier == "quick" else 80):
        k = rng.choice([2, 3, 4, 4])
        reg = op("go", n=k, ms=rng.choice([5, 15]), val="reg.locked*" if i % 5 else "reg.locked", body=[op("cleanup", body=[] if i % 2 else [op("cleanup", body=[])])])
        cust = draw(g("Custom", elem=g("Int8"), body=[op("cleanup", body=[op("ctx", text="in-cleanup")]), reg]), "c")
        body = [op("ctx", text="body"), op("cleanup", body=[op("ctx", text="in-cleanup")])] + ([reg] if i % 3 != 2 else [cust]) + \
               [op("cleanup", body=CLEANUP_KINDS["plain"]()), draw(g("Int16"), "x", "x")] + ENDINGS[rng.choice(["ret", "threshold", "skip"])]
        out.append(scenario("c10-goreg-%d" % i, {"body": body}, {"checks": 10, "seed": rng.randrange(1, 1 << 64), "nofailfile": "true", "shrinktime": "0s"},
                            tag={"ending": "concurrent registration"}))
    # fail-file replay (runs 1/2) and fuzzing go through the same brackets
    for i in range(4 if tier == "quick" else 60):
        body = c10_body(rng) + ENDINGS["threshold"]
        out.append(scenario("c10-rerun-%d" % i, {"body": body}, {"checks": 100, "seed": rng.randrange(1, 1 << 64)},
                            runs=[{}, {}], tag={"ending": "threshold", "runs": 2}))
        cbody = [op("ctx", text="custom"), op("cleanup", body=CLEANUP_KINDS[rng.choice(["plain", "registers", "nested"])]()),
                 op("cleanup", body=CLEANUP_KINDS[rng.choice(["plain", "registers", "panics"])]()),
                 draw(IntRange(0, 5), "a", "a"), iff("a", "le", rng.choice([-1, 1, 2]), [op("skip")]), op("ctx", text="custom")]
        eg = g("SliceOfN", elem=g("Custom", elem=g("Int8"), body=cbody), minLen=0, maxLen=3)
        out.append(scenario("c10-example-%d" % i, {"body": []}, {}, runs=[{"entry": "example", "exampleGen": eg, "exampleN": 25}], tag={"entry": "example"}))
        fz = ["", "00" * 8, "ff" * 24, "%016x" % rng.randrange(1 << 64) * 6, "01" * 37]
        out.append(scenario("c10-fuzz-%d" % i, {"body": c10_body(rng) + ENDINGS["nonfatal"]}, {}, runs=[{"fuzz": fz}], entry="fuzz",
                            tag={"ending": "nonfatal", "entry": "fuzz"}))
    return out + random_scripts("c10", tier, seed, 40, 1200, tag={"ending": "random"})


# ---------------------------------------------------------------------------
# C08: the state-machine discipline

def sm_action(kind, rng):
    j = rng.randrange(1, 5)
    if kind == "ok":
        return [draw(g("Int8"), "v"), op("incvar", var="n")]
    if kind == "ok2":
        return [draw(g("Bool"), "w"), draw(g("Byte"), "z"), op("incvar", var="n")]
    if kind == "skipbefore":
        return [iff("n", "ge", j, [op("skip")]), draw(g("Bool"), "v"), op("incvar", var="n")]
    if kind == "skipafter":
        return [draw(IntRange(0, 9), "r", "r"), iff("r", "ge", rng.randrange(0, 8), [op("skip")]), op("incvar", var="n")]
    if kind == "alwaysskip":
        return [op("skip")]
    if kind == "alwaysskipafter":
        return [draw(g("Bool"), "v"), op("skip")]
    if kind == "fatal":
        return [op("incvar", var="f"), iff("f", "ge", j, [op(rng.choice(["fatalf", "panic", "failnow"]), site=1)]), draw(g("Bool"), "v")]
    if kind == "nonfatal":
        return [op("incvar", var="e"), draw(g("Bool"), "v"), iff("e", "ge", j, [op(rng.choice(["errorf", "fail"]), text="nf")])]
    if kind == "hardfilter":   # the first draw comes from a Filter that often gives up: the action is abandoned inside the draw (a rejected step, not a failure)
        return [draw(g("Filter", elem=IntRange(0, 20), pred="rare"), "hf"), draw(g("Bool"), "v"), op("incvar", var="n")]
    if kind == "fatal_recovered":   # a fatal failure whose panic the action's own code swallows: the machine must stop all the same
        return [op("incvar", var="f"), draw(g("Bool"), "v"), iff("f", "ge", j, [op("recover", body=[op(rng.choice(["fatalf", "failnow"]), site=1)])])]
    if kind == "nonfatal_custom":   # a non-fatal failure, then a successful Custom draw in the same action
        return [op("incvar", var="e"), iff("e", "ge", j, [op(rng.choice(["errorf", "fail"]), text="nf")]), draw(g("Custom", elem=g("Int8"), body=[]), "cv")]
    raise KeyError(kind)


def c08(tier, seed):
    rng = random.Random(seed)
    out = []
    kinds = ["ok", "ok2", "skipbefore", "skipafter", "alwaysskip", "alwaysskipafter", "fatal", "nonfatal", "nonfatal_custom", "fatal_recovered", "hardfilter"]
    n = 85 if tier == "quick" else 2500
    for i in range(n):
        k = rng.randrange(1, 5)
        if i < 11:
            chosen = [kinds[i]]
        elif i < 17:
            chosen = [["alwaysskip"], ["alwaysskip", "alwaysskip"], ["alwaysskip", "alwaysskipafter"], ["skipbefore"], ["alwaysskipafter"],
                      ["skipbefore", "alwaysskip"]][i - 11]
        else:
            chosen = [rng.choice(kinds) for _ in range(k)]
        actions = {"act%d_%s" % (j, kd): sm_action(kd, rng) for j, kd in enumerate(chosen)}
        inv = None
        r = rng.random()
        if r < 0.35:
            inv = [op("incvar", var="i")]
        elif r < 0.7:
            jj = rng.randrange(1, 6)
            inv = [op("incvar", var="i"), iff("i", "ge", jj, [op(rng.choice(["fatalf", "errorf", "panic"]), site=2)])]
        body = [op("setvar", var=v, val="0") for v in ("n", "f", "e", "i")]
        if i % 9 == 5:
            # the test case has already failed (non-fatally) when Repeat is entered, for some of its inputs: not one action may run then
            body += [draw(g("Uint8"), "pre", "pre"), iff("pre", "mod2", 0, [op("errorf", text="before the machine")])]
        rep = {"op": "repeat", "actions": actions}
        if i % 5 == 4 and len(chosen) <= 3:
            # the machine as a struct: its actions are collected by rapid.StateMachineActions (methods ActA, ActB(*T), ActC(TB); Check is the invariant)
            actions = {nm: body_ for nm, body_ in zip(["ActA", "ActB", "ActC", "ActD"], list(actions.values()) + [sm_action("ok2", rng), sm_action("ok", rng)])}
            rep = {"op": "repeat", "actions": actions, "val": "struct"}
            if inv is None:
                inv = [op("incvar", var="i")]
        if inv is not None:
            rep["inv"] = inv
        body.append(rep)
        body.append(draw(g("Bool"), "after"))
        fl = {"checks": rng.choice([5, 30]), "seed": rng.randrange(1, 1 << 64), "steps": rng.choice([0, 1, 1, 5, 5, 30, 30, 200]), "nofailfile": "true",
              "shrinktime": rng.choice(["0s", "300ms", "30s"])}
        if rep.get("val") == "struct" or i % 4 == 0:
            fl["v"] = "true"      # the TB is told which action key was drawn
        if i % 7 == 3 and rep.get("val") != "struct":
            rep["n"] = 1          # two Repeat phases sharing one actions map
        out.append(scenario("c08-%d-%s" % (i, "+".join(chosen)), {"body": body}, fl, tag={"actions": chosen, "inv": inv is not None}))
    # a machine that is stuck for a while: nine actions never apply (they skip before drawing), the tenth draws and then often skips (a rejected step).
    # Long stretches of rejected steps, each after a few actions skipped in place, are no reason to give up: the tenth action is able to run
    for i in range(4 if tier == "quick" else 40):
        actions = {"never%d" % j: [op("skip")] for j in range(9)}
        actions["sometimes"] = [draw(IntRange(0, 9), "x", "x"), iff("x", "le", 5, [op("skip")]), op("incvar", var="n")]
        body = [op("setvar", var=v, val="0") for v in ("n", "i")] + [{"op": "repeat", "actions": actions, "inv": [op("incvar", var="i")]}, draw(g("Bool"), "after")]
        out.append(scenario("c08-stuck-awhile-%d" % i, {"body": body}, {"checks": 60, "seed": rng.randrange(1, 1 << 64), "steps": 300, "nofailfile": "true", "shrinktime": "0s"},
                            tag={"actions": ["never x9", "sometimes"], "inv": True}))
    # arbitrary words through the fuzz entry
    for i in range(3 if tier == "quick" else 40):
        actions = {"a": sm_action("ok", rng), "b": sm_action("skipafter", rng), "c": sm_action("skipbefore", rng)}
        body = [op("setvar", var=v, val="0") for v in ("n", "f", "e", "i")] + [{"op": "repeat", "actions": actions, "inv": [op("incvar", var="i")]}]
        fz = ["", "00" * 64, "ff" * 64, "%016x" % rng.randrange(1 << 64) * 20, "80" * 100, "7f" * 333]
        out.append(scenario("c08-fuzz-%d" % i, {"body": body}, {"steps": 5}, runs=[{"fuzz": fz}], entry="fuzz", tag={"entry": "fuzz"}))
    return out + random_scripts("c08", tier, seed, 40, 1200, goroutines=False, tag={"actions": ["random"], "inv": True})


# ---------------------------------------------------------------------------
# C06: persisted and replayed first

NAMES = ["TestPlain", "Test/sub/case", "Test\\back\\slash", "Test:colon*star?q\"quote<lt>gt|pipe", "Test with spaces.and.dots",
         "Тест_юникод_名前_テスト", "CON", "com1", "LPT9", "nul", "Test-" + "x" * 180, "Ünïcödé/ß/ǅ", "T", "Test\ttab\nnewline", "AUX.txt", "Test#hash%percent"]

LOGS = {
    "nothing": [],
    "text": [op("log", text="hello world")],
    "bytes": [op("lograw", text="00010d0a23207630ff fe80".replace(" ", "")), op("lograw", text="0a0a23230a")],
    "hashline": [op("log", text="# v0.4.8#12345"), op("log", text="0xdeadbeef")],
    "crlf": [op("log", text="line1\r\nline2\r"), op("log", text="\n#\n")],
    "long64k": [op("loglong", n=65534)],
    "long64k1": [op("loglong", n=65535)],
    "long70k": [op("loglong", n=70000)],
    "long1m": [op("loglong", n=1 << 20)],
}


def c06(tier, seed):
    rng = random.Random(seed)
    out = []
    bodies = {
        "threshold": lambda: t_threshold("Int64", 1000),
        "empty_stream": lambda: [op("fatalf", site=1)],                     # fails without drawing: the minimized bitstream is empty
        "distinct": t_distinct, "string": t_string, "nonfatal": t_nonfatal, "sm": t_sm, "panic": lambda: t_threshold("Uint16", 77, "panic"),
    }
    combos = []
    for nm in NAMES:
        combos.append((nm, rng.choice(sorted(LOGS)), rng.choice(sorted(bodies))))
    for lg in sorted(LOGS):
        for bd in sorted(bodies):
            combos.append((rng.choice(NAMES[:6]), lg, bd))
    if tier == "quick":
        combos = combos[:len(NAMES)] + rng.sample(combos[len(NAMES):], 22) + [("TestEvery_" + bd, "text", bd) for bd in sorted(bodies)]   # (every body at least once)
    else:
        combos = combos * 12
    for i, (nm, lg, bd) in enumerate(combos):
        if tier == "quick" and lg == "long1m" and i % 2:
            lg = "long70k"
        body = LOGS[lg] + bodies[bd]()
        fl = {"checks": 100, "seed": rng.randrange(1, 1 << 64), "shrinktime": rng.choice(["0s", "30s", "30s"])}
        runs = [{}, {"expect": "replay_prev"}, {"cleanDir": True, "failfilePrev": True, "expect": "replay_prev", "expectRun": 1}]
        out.append(scenario("c06-%d-%s-%s" % (i, lg, bd), {"body": body}, fl, runs=runs, name=nm, tag={"log": lg, "body": bd, "testname": nm}))
    # stale files of the same test that sort before the persisted failure (no longer valid, now passing, other version, garbage)
    # must not keep it from being replayed
    for i in range(6 if tier == "quick" else 60):
        nm = rng.choice(["TestStale", "Test/stale one"])
        stale = [{"path": ff_path(nm, "0000a"), "text": failfile_text([])},                       # runs out of data: no longer valid
                 {"path": ff_path(nm, "0000b"), "text": failfile_text([0] * 12)},                 # now passes
                 {"path": ff_path(nm, "0000c"), "text": failfile_text([9, 9, 9], version="v0.0.1")},
                 {"path": ff_path(nm, "0000d"), "text": "garbage"},
                 {"path": ff_path(nm, "0000e"), "text": failfile_text([1 << 63])},
                 {"path": ff_path(nm, "0000f"), "link": "no-such-file"},                           # a dangling symbolic link
                 {"path": ff_path(nm, "0000g"), "dir": True}]
        rng.shuffle(stale)
        runs = [{}, {"files": stale[:rng.randrange(1, 8)], "expect": "replay_prev"}]
        out.append(scenario("c06-stale-%d" % i, {"body": t_threshold("Int64", 1000)}, {"checks": 100, "seed": rng.randrange(1, 1 << 64)}, runs=runs, name=nm,
                            tag={"log": "nothing", "body": "threshold", "testname": nm, "stale": True}))
    # an explicit -rapid.failfile is tried before the files found in the test's directory
    for i in range(4 if tier == "quick" else 40):
        body = t_threshold("Int64", 1000)
        runs = [{"flags": {"seed": str(rng.randrange(1, 1 << 64)), "shrinktime": "0s"}},
                {"stashPrev": True, "stashDir": ["stash", "art [job 7]", "a*b?c", "back\\slash"][i % 4], "flags": {"seed": str(rng.randrange(1, 1 << 64))}},
                {"failfileRun": 1, "expect": "replay_prev", "expectRun": 1}]      # (the path given with the flag is a path, whatever characters it contains)
        out.append(scenario("c06-explicit-%d" % i, {"body": body}, {"checks": 100}, runs=runs, name="TestExplicit", tag={"explicit": True}))
    # -rapid.nofailfile only keeps Check from WRITING fail files: the persisted failure is still found and replayed first
    for i in range(2 if tier == "quick" else 12):
        runs = [{}, {"flags": {"nofailfile": "true"}, "expect": "replay_prev"}, {"expect": "replay_prev", "expectRun": 1}]
        out.append(scenario("c06-nofailfile-rerun-%d" % i, {"body": t_threshold("Int64", 1000)}, {"checks": 100, "seed": rng.randrange(1, 1 << 64)},
                            runs=runs, name="TestNoFailFileRerun", tag={"explicit": False, "rerun": "nofailfile"}))
    # the persisted failure is found and replayed also when -rapid.failfile names some other (stale) file
    for i in range(2 if tier == "quick" else 16):
        path = "elsewhere/other.fail"
        runs = [{}, {"files": [{"path": path, "text": failfile_text([0] * 12)}], "flags": {"failfile": path}, "expect": "replay_prev"}]
        out.append(scenario("c06-found-despite-explicit-%d" % i, {"body": t_threshold("Int64", 1000)}, {"checks": 100, "seed": rng.randrange(1, 1 << 64)},
                            runs=runs, name="TestFoundDespiteExplicit", tag={"explicit": True, "stale": "passing"}))
    # ... also when that other file happens to have the very name of the persisted one (a copy kept in another directory that went stale)
    for i in range(2 if tier == "quick" else 16):
        runs = [{}, {"shadowPrev": ["garbage", failfile_text([0] * 12), failfile_text([9], version="v0.0.1")][i % 3], "expect": "replay_prev"}]
        out.append(scenario("c06-found-despite-namesake-%d" % i, {"body": t_threshold("Int64", 1000)}, {"checks": 100, "seed": rng.randrange(1, 1 << 64)},
                            runs=runs, name="TestNamesake", tag={"explicit": True, "stale": "namesake"}))
    # an explicit -rapid.failfile that does not reproduce anything any more (now passing, other version, garbage, missing): a failure the random
    # search then finds is a new one -- it is saved, and replayed first by the next run without flags
    stale_kinds = {"passing": failfile_text([0] * 12), "otherversion": failfile_text([9, 9], version="v0.0.1"), "garbage": "garbage", "missing": None,
                   "invalid": failfile_text([])}
    for i, k in enumerate(sorted(stale_kinds) * (1 if tier == "quick" else 8)):
        path = "elsewhere/old-%s.fail" % k
        fs = [] if stale_kinds[k] is None else [{"path": path, "text": stale_kinds[k]}]
        runs = [{"files": fs, "flags": {"failfile": path}}, {"expect": "replay_prev"}]
        out.append(scenario("c06-explicit-stale-%s-%d" % (k, i), {"body": t_threshold("Int64", 1000)}, {"checks": 100, "seed": rng.randrange(1, 1 << 64)},
                            runs=runs, name="TestExplicitStale", tag={"explicit": True, "stale": k}))
    return out


# ---------------------------------------------------------------------------
# C17: unusable fail files are ignored and never change the verdict

def unusable_files(rng, name, n, valid_text):
    kinds = ["random", "trunc", "mutate", "huge", "negative", "nofield", "extrafield", "otherversion", "comments", "empty", "dir",
             "longline", "passing", "invalid", "onechar", "prefixversion", "spaces", "nohex", "randwords", "randwords", "extrafields", "junktail", "junktail"]
    ver = rapid_version()
    files = []
    for j in range(n):
        k = rng.choice(kinds)
        path = ff_path(name, "u%d%s" % (j, k))
        f = {"path": path}
        if k == "random":
            f["hex"] = bytes(rng.randrange(256) for _ in range(rng.randrange(1, 200))).hex()
        elif k == "trunc":
            cut = rng.randrange(0, len(valid_text))
            f["hex"] = valid_text[:cut].encode().hex()
        elif k == "mutate":
            b = bytearray(valid_text.encode())
            pos = rng.randrange(len(b))
            b[pos] = rng.randrange(256)
            f["hex"] = bytes(b).hex()
        elif k == "huge":
            f["text"] = "# c\n%s#1\n0x1\n0x10000000000000000\n" % ver
        elif k == "negative":
            f["text"] = "%s#-5\n-0x3\n" % ver
        elif k == "nofield":
            f["text"] = "%s\n0x1\n" % ver
        elif k == "extrafield":
            f["text"] = "%s#1#2\n0x1\n" % ver
        elif k == "otherversion":
            f["text"] = failfile_text([5000, 5000, 5000, 5000, 5000, 5000], version=rng.choice(["v0.4.7", "v1.0.0", "v0.4.80", ver + "1", ver + ".1", "", "x"]))
        elif k == "prefixversion":
            f["text"] = failfile_text([0, (1 << 63), (1 << 63), 0, 0, 0], version=ver + rng.choice(["0", "1", "-dev", ".2"]))
        elif k == "comments":
            f["text"] = "# only\n# comments\n\n"
        elif k == "empty":
            f["text"] = ""
        elif k == "dir":
            f = {"path": path, "dir": True}
        elif k == "longline":
            f["text"] = "# " + "z" * rng.choice([65534, 65536, 200000]) + "\n" + failfile_text([0, 0, 0], comments=())
        elif k == "passing":
            f["text"] = failfile_text([0, 0, 0, 0, 0, 0, 0, 0])
        elif k == "invalid":
            f["text"] = failfile_text([])
        elif k == "onechar":
            f["text"] = "%s#12345\n0" % ver
        elif k == "spaces":
            f["text"] = "   \n\t%s#7  \n  0x0 \n0x0\n\n0x0\n" % ver
        elif k == "randwords":   # well-formed, current version, arbitrary words: replays to whatever it replays to (often runs out of data)
            f["text"] = failfile_text([rng.choice([0, 1, rng.randrange(1 << 64), (1 << 53) - 1, 1 << 52]) for _ in range(rng.randrange(0, 60))])
        elif k == "extrafields":
            f["text"] = "%s#1#%s\n0x%x\n0x%x\n0x%x\n" % (ver, rng.choice(["", "2", "extra#field"]), rng.randrange(1 << 64), rng.randrange(1 << 64), rng.randrange(1 << 64))
        elif k == "junktail":   # a complete (failing) test case followed by a line that is not a number: the file as a whole is malformed
            f["text"] = valid_text.rstrip("\n") + "\n" + rng.choice(["-1", "0xZZ", "<<<<<<< HEAD", "18446744073709551616", "1e3", "0x", "0x1 0x2", "+"]) + \
                rng.choice(["", "\n", "\n0x0\n"])
        elif k == "nohex":
            f["text"] = "%s#7\n12\n0b11\n0o7\n077\n" % ver
        files.append(f)
    return files


def c17(tier, seed):
    rng = random.Random(seed)
    out = []
    n = 45 if tier == "quick" else 1500
    props = {
        "passing": lambda: {"body": [draw(g("Int64"), "x", "x"), draw(g("SliceOf", elem=g("Byte")), "s")]},
        "failing": lambda: {"body": t_threshold("Int64", 1000)},
        "skipping": lambda: {"body": [draw(g("Uint8"), "x", "x"), iff("x", "mod2", 0, [op("skip")])]},
        "nonfatal": lambda: {"body": t_nonfatal()},
        "sm": lambda: {"body": [op("setvar", var="n", val="0"),
                                op("repeat", actions={"inc": [draw(g("Bool"), "b"), op("incvar", var="n")], "skipafter": [draw(IntRange(0, 9), "r"), op("skip")],
                                                      "pick": [draw(g("SampledFrom", items=["1", "2", "3"]), "s")]}, inv=[op("incvar", var="i")]),
                                draw(g("Int"), "after")]},
        "custom": lambda: {"body": [draw(g("Custom", elem=g("SliceOf", elem=g("Int8")), body=[draw(IntRange(0, 5), "a", "a"), iff("a", "le", 1, [op("skip")])]), "c")]},
    }
    valid = failfile_text([1, 40, 999999], seed=77, comments=("# [TestX] draw x: 999999", "#"))
    for i in range(n):
        pn = sorted(props)[i % len(props)]
        name = rng.choice(["TestIgnore", "Test/Ignore sub"])
        nfiles = rng.randrange(1, 6)
        files = unusable_files(rng, name, nfiles, valid)
        fl = {"checks": rng.choice([5, 30]), "seed": rng.randrange(1, 1 << 64), "nofailfile": "true", "shrinktime": "0s"}
        runs = [{}, {"files": files, "expect": "same_as_clean"}]
        out.append(scenario("c17-%d-%s-%d" % (i, pn, nfiles), props[pn](), fl, runs=runs, name=name,
                            tag={"prop": pn, "kinds": [f["path"].split("-")[-1].replace(".fail", "") for f in files]}))
    # an unusable file given with -rapid.failfile that has the very name of a usable one in the test's directory does not hide it
    for i in range(3 if tier == "quick" else 30):
        runs = [{"flags": {"nofailfile": "false"}}, {"shadowPrev": ["garbage", failfile_text([]), failfile_text([9], version="v0.0.1")][i % 3],
                                                     "flags": {"nofailfile": "false"}, "expect": "replay_prev"}]
        out.append(scenario("c17-namesake-%d" % i, {"body": t_threshold("Int64", 1000)}, {"checks": 100, "seed": rng.randrange(1, 1 << 64), "shrinktime": "0s"},
                            runs=runs, name="TestNamesake", tag={"prop": "failing", "kinds": ["explicit namesake"]}))
    # unusable entries that cannot even be opened (a dangling symbolic link, a directory) and sort before the persisted failure do not keep it from being replayed
    for i in range(3 if tier == "quick" else 20):
        nm = "TestUnstatable"
        bad = [{"path": ff_path(nm, "0000a"), "link": "no-such-file"}, {"path": ff_path(nm, "0000b"), "dir": True}, {"path": ff_path(nm, "0000c"), "link": ff_path(nm, "0000c")[len("testdata/"):]}]
        runs = [{"flags": {"nofailfile": "false"}}, {"files": bad[i % 3:] + bad[:i % 3][:i % 2], "flags": {"nofailfile": "false"}, "expect": "replay_prev"}]
        out.append(scenario("c17-unstatable-%d" % i, {"body": t_threshold("Int64", 1000)}, {"checks": 100, "seed": rng.randrange(1, 1 << 64), "shrinktime": "0s"},
                            runs=runs, name=nm, tag={"prop": "failing", "kinds": ["dangling link / directory before the usable file"]}))
    # truncations of a real recording of the same property (every few words): each is well-formed and of the current version,
    # and replays to "no longer valid" (or passes); none may change the run
    for i in range(6 if tier == "quick" else 60):
        pn = ["sm", "custom", "passing"][i % 3]
        body = props[pn]()["body"]
        name = "TestTrunc"
        sd = rng.randrange(1, 1 << 64)
        # (the state machine's recording is to be a long one: it only fails once a few actions have been executed)
        tail = [iff("n", "ge", 3, [op("fatalf", site=1)])] if pn == "sm" else [op("fatalf", site=1)]
        runs = [{"prop": {"body": body + tail}, "flags": {"nofailfile": "false", "shrinktime": "0s", "checks": "100" if pn == "sm" else "3"}},
                {"cleanDir": True},
                {"truncPrev": sorted(set(list(range(0, 12)) + [rng.randrange(0, 80) for _ in range(25)])), "expect": "same_as_clean", "expectRun": 2}]
        out.append(scenario("c17-trunc-%s-%d" % (pn, i), {"body": body}, {"checks": 10, "seed": sd, "nofailfile": "true", "shrinktime": "0s", "steps": 8},
                            runs=runs, name=name, tag={"prop": pn, "kinds": ["truncations of a real recording"]}))
    return out


# ---------------------------------------------------------------------------
# C04: draws are a pure function of the bitstream (recorded, pruned, replayed)

def c04_bodies():
    return {
        "distinct": [draw(g("SliceOfDistinct", elem=IntRange(0, 2)), "s"), draw(g("Int"), "y"), draw(g("Int"), "z")],
        "distinctN": [draw(g("SliceOfNDistinct", elem=IntRange(0, 3), minLen=1, maxLen=6), "s"), draw(g("Uint16"), "y")],
        "map": [draw(g("MapOf", key=g("Int8Range", min="0", max="2"), val=g("Int16")), "m"), draw(g("Uint8"), "u")],
        "mapvalues": [draw(g("MapOfNValues", val=IntRange(0, 3), minLen=0, maxLen=5), "m"), draw(g("Bool"), "b")],
        "string": [draw(g("StringN", minLen=-1, maxLen=-1, maxBytes=4), "s"), draw(g("Int"), "y")],
        "stringof": [draw(g("StringOfN", elem=g("RuneFrom", expr="a\u00e9\u4e16\U0001f600"), minLen=0, maxLen=6, maxBytes=7), "s"), draw(g("Int8"), "y")],
        # a rune generator that also yields values that are not valid runes (surrogates): they are rejected, like runes that do not fit any more
        "stringof_invalid": [draw(g("StringOfN", elem=g("RuneSampled", items=["97", "233", "0x4e16", "0xD800", "0xDFFF"]), minLen=-1, maxLen=-1, maxBytes=5), "s%d" % j) for j in range(10)]
                            + [draw(g("Int8"), "y")],
        "filter": [draw(g("Filter", elem=IntRange(0, 1000), pred="mod3"), "x"), draw(g("SliceOf", elem=g("Bool")), "b")],
        "sampled": [draw(g("SampledFrom", items=["1", "2", "3"]), "c"), draw(g("Int32"), "v"), draw(g("SampledFrom", items=["7", "8", "9", "10", "11"]), "d")],
        "custom": [draw(g("Custom", elem=g("Int16"), body=[draw(IntRange(0, 5), "a", "a"), iff("a", "le", 2, [op("skip")])]), "c"), draw(g("Uint8"), "t")],
        "makemap": [draw(g("Make", type="map"), "mm"), draw(g("Int8"), "t")],
        "makestruct": [draw(g("Make", type="struct"), "ms"), draw(g("Make", type="ptr"), "mp")],
        "regexp": [draw(g("StringMatching", expr="[a-c]{2,4}x?|\\d+"), "r"), draw(g("SliceOfBytesMatching", expr="(?i)ab*c"), "rb")],
        # case-insensitive character classes that print like case-sensitive ones used elsewhere in the process ([0-9], \d, [A-Fa-f])
        "regexp_ci_class": [draw(g("StringMatching", expr="(?i)[0-9]{2}-[a-f]{3}\\d"), "r"), draw(g("SliceOfBytesMatching", expr="(?i)id\\d+[a-f]"), "rb"), draw(g("Int8"), "t")],
        "regexp_retry": [draw(g("StringMatching", expr="[a-c]\\b[ab -]"), "r"), draw(g("SliceOfBytesMatching", expr="^x?\\bfo[o ]\\b|[a-z]$"), "rb"), draw(g("Int8"), "t")],
        "sm2": [op("repeat", actions={"left": [draw(g("Bool"), "b")], "right": [draw(g("Byte"), "c")]}), draw(g("Int8"), "after")],
        "custom_hard": t_custom_hard()[:-1],
        "sm_hard": t_sm_hard()[:-1],
        "custom_fatal": [draw(g("Int8"), "p"), draw(g("Custom", elem=g("Int16"), body=[draw(IntRange(0, 9), "a", "a"), iff("a", "le", 1, [op("skip")]),
                                                                                         draw(g("Int16"), "w"), op("fatalf", site=3)]), "c")],
        "filter_panics": [draw(g("Int8"), "p"), draw(g("Filter", elem=IntRange(0, 1000), pred="boom"), "f"), draw(g("Filter", elem=IntRange(4, 4), pred="boom"), "f2")],
        "makemapbool": [draw(g("Make", type="mapboolint"), "mb"), draw(g("Make", type="mapbyteint"), "mi"), draw(g("Int8"), "t")],
        "floats": [draw(g("Float64"), "f"), draw(g("Float32Range", min="-1", max="1"), "g"), draw(g("Float64Range", min="0", max="inf"), "h")],
        "perm": [draw(g("Permutation", items=["1", "2", "3", "4"]), "p"), draw(g("OneOf", gens=[g("Int8"), IntRange(5, 6)]), "o"), draw(g("Ptr", elem=g("Int"), allowNil=True), "q")],
        "sm": [op("setvar", var="n", val="0"),
               op("repeat", actions={"inc": [draw(g("Bool"), "b"), op("incvar", var="n")],
                                     "skipafter": [draw(IntRange(0, 9), "r"), op("skip")],
                                     "skipbefore": [iff("n", "ge", 2, [op("skip")]), draw(g("Byte"), "q")]}),
               draw(g("Int"), "after")],
    }


def c04(tier, seed):
    rng = random.Random(seed)
    out = []
    bodies = c04_bodies()
    nseeds = 12 if tier == "quick" else 300
    rel = [{"a": "repro@1", "kind": "replay", "b": "gen@1"}, {"a": "final@1", "kind": "pruned", "b": "repro@1"},
           {"a": "fuzz1", "kind": "replay", "b": "repro@1"}, {"a": "fuzz2", "kind": "pruned", "b": "repro@1"},
           {"a": "gen@3", "kind": "replay", "b": "gen@1"}, {"a": "gen@4", "kind": "replay", "b": "gen@1"},
           {"a": "final@4", "kind": "pruned", "b": "repro@1"}]
    for bn in sorted(bodies):
        for sd in seeds(rng, nseeds):
            body = bodies[bn] + [op("fatalf", site=1)]          # every test case fails after its draws, so every seed gets recorded
            fl = {"checks": 1, "seed": sd, "nofailfile": "true", "shrinktime": "0s", "steps": rng.choice([3, 30])}
            runs = [{}, {"entry": "fuzz", "fuzzFrom": ["recorded", "pruned"]},
                    {"warm": rng.sample(["strings", "labels", "check", "failcheck"], 2)},   # same seed again after unrelated activity
                    {"freshProc": True}]                                                    # ... and in a new process
            if bn == "regexp_ci_class":   # the process has used the case-sensitive namesakes of its classes before (the new process has not)
                runs[0] = {"warm": ["classes"]}
            out.append(scenario("c04-%s-%d-%d" % (bn, sd, len(out)), {"body": body}, fl, runs=runs, tag={"body": bn, "rel": rel}))
    return out


def c04_short(tier, seed):
    """State machines in a process started with -test.short (rapid then runs a fifth of the checks and half the steps): the same seed still
    yields the same test cases every time, and recordings replay."""
    rng = random.Random(seed + 4)
    out = []
    bodies = c04_bodies()
    rel = [{"a": "repro@1", "kind": "replay", "b": "gen@1"}, {"a": "final@1", "kind": "pruned", "b": "repro@1"},
           {"a": "fuzz1", "kind": "replay", "b": "repro@1"}, {"a": "fuzz2", "kind": "pruned", "b": "repro@1"},
           {"a": "gen@3", "kind": "replay", "b": "gen@1"}, {"a": "gen@4", "kind": "replay", "b": "gen@1"}]
    for bn in ("sm", "sm2"):
        for sd in seeds(rng, 3 if tier == "quick" else 40):
            body = bodies[bn] + [op("fatalf", site=1)]
            fl = {"checks": 5, "seed": sd, "nofailfile": "true", "shrinktime": "0s", "steps": rng.choice([6, 30])}
            runs = [{}, {"entry": "fuzz", "fuzzFrom": ["recorded", "pruned"]}, {"warm": ["check", "failcheck"]}, {}]
            out.append(scenario("c04-short-%s-%d-%d" % (bn, sd, len(out)), {"body": body}, fl, runs=runs, tag={"body": bn, "rel": rel, "short": True}))
    return out


# ---------------------------------------------------------------------------
# C13: MakeFuzz is total and faithful

def c13(tier, seed):
    rng = random.Random(seed)
    out = []
    props = {
        "threshold": lambda: t_threshold("Int64", 1000), "nonfatal": t_nonfatal, "distinct": t_distinct, "string": t_string, "sm": t_sm,
        "filter": t_filter, "custom": t_custom, "skipper": lambda: [draw(g("Uint8"), "x", "x"), iff("x", "mod2", 0, [op("skip")]), draw(g("Bool"), "b")],
        "errorf_then_more": lambda: [draw(g("Byte"), "x", "x"), iff("x", "ge", 3, [op("errorf", text="soft")]), draw(g("SliceOf", elem=g("Uint64")), "s")],
        "wide": lambda: [draw(g("Uint64"), "a"), draw(g("Uint64"), "b"), draw(g("Uint64"), "c")],
        "nodraw": lambda: [op("log", text="no draws")], "panic": lambda: t_threshold("Int8", 5, "panic"),
        # failure signals raised in callbacks: the fuzz target must fail iff the test case is falsified
        "custom_cleanup_errorf": lambda: [draw(g("Custom", elem=g("Int8"), body=[draw(g("Byte"), "y", "y"),
                                                                                  op("cleanup", body=[iff("y", "ge", 100, [op("errorf", text="late")])])]), "c")],
        "custom_errorf": lambda: [draw(g("Custom", elem=g("Int8"), body=[draw(g("Byte"), "y", "y"), iff("y", "ge", 100, [op("errorf", text="in custom")])]), "c")],
        # ... unconditionally: every input that is not exhausted fails
        "custom_cleanup_errorf_always": lambda: [draw(g("Custom", elem=g("Int8"), body=[draw(g("Byte"), "y"), op("cleanup", body=[op("errorf", text="late")])]), "c"),
                                                 draw(g("Bool"), "after")],
        "custom_errorf_always": lambda: [draw(g("Custom", elem=g("Int8"), body=[op("error0"), draw(g("Byte"), "y")]), "c"), draw(g("Bool"), "after")],
        "cleanup_fail_always": lambda: [draw(g("Byte"), "x"), op("cleanup", body=[op("fail")]), op("cleanup", body=[op("ctx")]), draw(g("Bool"), "b")],
        "cleanup_errorf": lambda: [draw(g("Byte"), "x", "x"), op("cleanup", body=[iff("x", "ge", 100, [op("errorf", text="cleanup")])]), draw(g("Bool"), "b")],
        "errorf_then_custom": lambda: [draw(g("Byte"), "x", "x"), iff("x", "ge", 100, [op("errorf", text="early")]), draw(g("Custom", elem=g("Int8"), body=[]), "c")],
        # several cleanups, a later-registered one fails / skips / draws (and so panics when the input is exhausted) while earlier ones are pending
        "cleanups_fatal": lambda: [op("cleanup", body=[op("ctx")]), draw(g("Byte"), "x", "x"), op("cleanup", body=[op("ctx")]),
                                   op("cleanup", body=[iff("x", "ge", 100, [op("fatalf", site=2)])]), draw(g("Bool"), "b")],
        "cleanups_draw": lambda: [op("cleanup", body=[op("ctx")]), draw(g("Byte"), "x", "x"), op("cleanup", body=[op("cleanupnil")]),
                                  op("cleanup", body=[draw(g("Uint64"), "late"), draw(g("Uint64"), "later")])],
        "cleanups_skip": lambda: [op("cleanup", body=[op("errorf", text="first registered")]), draw(g("Byte"), "x", "x"),
                                  op("cleanup", body=[iff("x", "mod2", 0, [op("skip")])]), op("cleanup", body=[iff("x", "ge", 200, [op("panic", val="error", site=1)])])],
        "sm_hard": lambda: t_sm_hard()[:-1],
        "cleanup_fatal_then_skip": lambda: [draw(g("Byte"), "x", "x"), op("cleanup", body=[iff("x", "mod2", 0, [op("skip")])]), op("cleanup", body=[op("fatalf", site=2)]),
                                            draw(g("Bool"), "b")],
        "fatal_recovered": lambda: [draw(g("Byte"), "x", "x"), iff("x", "ge", 3, [op("recover", body=[op("fatalf", site=1)])]), draw(g("Bool"), "b")],
        "sm_all_skip": lambda: [op("repeat", actions={"s1": [draw(g("Byte"), "q"), op("skip")], "s2": [draw(g("Bool"), "w"), draw(g("Bool"), "w2"), op("skip")]},
                                   inv=[op("ctx")]), draw(g("Int8"), "after")],
        "distinct_dups": lambda: [draw(g("SliceOfNDistinct", elem=IntRange(0, 1), minLen=0, maxLen=5), "d"), draw(g("MapOfN", key=g("Bool"), val=g("Bool"), minLen=1, maxLen=3), "m"),
                                  draw(g("Int8"), "after")],
        "sm_skips": lambda: [op("setvar", var="n", val="0"),
                             op("repeat", actions={"inc": [draw(g("Bool"), "b"), op("incvar", var="n")], "skipafter": [draw(IntRange(0, 9), "r"), op("skip")],
                                                   "skipafter2": [draw(g("Byte"), "q"), draw(g("Bool"), "w"), op("skip")]}),
                             draw(g("Int"), "after")],
    }
    pats = ["00", "ff", "01", "80", "7f"]
    nrep = 1 if tier == "quick" else 60
    for rep in range(nrep):
        for pn in sorted(props):
            inputs, rel = [], []

            def add(hx, relto=None, kind=None):
                inputs.append(hx)
                if relto:
                    rel.append({"a": "fuzz%d" % len(inputs), "kind": kind, "b": "fuzz%d" % relto})
                return len(inputs)
            for n in (range(0, 25) if rep == 0 else rng.sample(range(0, 200), 25)):
                p = rng.choice(pats)
                add(p * n)
            for _ in range(12 if tier == "quick" else 40):
                n = rng.choice([1, 7, 8, 9, 15, 16, 17, 23, 24, 25, 40, 63, 64, 65, 200, 1000])
                hx = bytes(rng.randrange(256) for _ in range(n)).hex()
                j = add(hx)
                add(hx, j, "same")
                add(hx + bytes(rng.randrange(256) for _ in range(rng.choice([1, 3, 8, 11]))).hex(), j, "extends")
                if n % 8:
                    add(hx + "00" * (8 - n % 8), j, "same")      # explicit zero padding of the short tail is the same input
            # tail bytes after a word of all ones: a stale (not re-zeroed) buffer would show
            j = add("ff" * 8 + "010203")
            add("ff" * 8 + "0102030000000000", j, "same")
            # the same words through a fail-file replay (a T that does not log, unlike the fuzz target's) give the same draws and verdict
            longs = [j + 1 for j, hx in enumerate(inputs) if len(hx) >= 2 * 64] or list(range(1, len(inputs) + 1))
            runs = [{"fuzz": inputs}]
            for rno, jf in enumerate(rng.sample(longs, min(4, len(longs)))):
                rel.append({"a": "ff1@%d" % (rno + 2), "kind": "faithful", "b": "fuzz%d" % jf})
                runs.append({"entry": "check", "failfileFuzz": jf, "flags": {"checks": "3", "seed": "5", "nofailfile": "true", "shrinktime": "0s"}})
            out.append(scenario("c13-%s-%d" % (pn, rep), {"body": props[pn]()}, {"steps": rng.choice([2, 30])}, runs=runs, entry="fuzz",
                                tag={"prop": pn, "rel": rel, "inputs": len(inputs)}))
    return out


# ---------------------------------------------------------------------------
# Random scripts: seeded random combinations of the whole op vocabulary (beyond the fixed templates).  Every script is
# deterministic in its draws: conditions only look at values drawn in the same invocation (or the same Custom call).

SIGNALS_NF = [("errorf", {}), ("error", {}), ("fail", {}), ("error0", {}), ("errornl", {})]
SIGNALS_FATAL = [("fatalf", {}), ("fatal", {}), ("failnow", {}), ("panic", {"val": "string"}), ("panic", {"val": "error"}), ("panic", {"val": "struct"}),
                 ("rterr", {"val": "index"}), ("rterr", {"val": "nilmap"}), ("rterr", {"val": "div"})]


def _sig(rng, fatal_ok=True, panics_ok=True):
    pool = list(SIGNALS_NF)
    if fatal_ok:
        pool += [s for s in SIGNALS_FATAL if panics_ok or s[0] not in ("panic", "rterr")]
    k, extra = rng.choice(pool)
    d = {"op": k, "site": rng.randrange(0, 4)}
    d.update(extra)
    if k == "error0":
        d = {"op": "error0"}
    return d


def _small_gen(rng):
    return rng.choice([IntRange(0, 100), g("Int8"), g("Uint16"), g("Bool"), g("SliceOfN", elem=g("Byte"), minLen=0, maxLen=3),
                       g("SliceOfDistinct", elem=IntRange(0, 2)), g("StringN", minLen=0, maxLen=3, maxBytes=-1), g("SampledFrom", items=["1", "2", "3"]),
                       g("Filter", elem=IntRange(0, 50), pred="even"), g("MapOfN", key=IntRange(0, 2), val=g("Bool"), minLen=0, maxLen=3), g("Float64"),
                       g("OneOf", gens=[g("Int8"), IntRange(5, 6)]), g("Make", type="mapboolint"), g("StringMatching", expr="[a-c]\\b.|x+")])


def _cond(rng, var, then, els=None):
    return iff(var, rng.choice(["ge", "le"]), rng.choice([5, 30, 50, 70, 95]), then, els)


def _cleanup_body(rng, var, allow_skip, panics_ok):
    kinds = ["ctx", "errorf", "reg", "nil", "plain", "fatal"] + (["skip"] if allow_skip else [])
    k = rng.choice(kinds)
    if k == "ctx":
        return [op("ctx", text="in-cleanup")]
    if k == "errorf":
        return [_cond(rng, var, [_sig(rng, fatal_ok=False)])]
    if k == "reg":
        return [op("cleanup", body=[op("ctx", text="in-cleanup")]), op("ctx", text="in-cleanup")]
    if k == "nil":
        return [op("cleanupnil")]
    if k == "fatal":
        return [_cond(rng, var, [_sig(rng, fatal_ok=True, panics_ok=panics_ok)])]
    if k == "skip":
        return [_cond(rng, var, [op("skip")])]
    return [op("log", text="cleanup")]


def random_body(rng, goroutines=True, machines=True):
    """a random scripted property; the first draw is an integer 'x' in 0..100 that the conditions look at"""
    panics_ok = rng.random() < 0.6          # (a script either may panic outside *T, or may skip from a cleanup: the combination is the known finding)
    allow_cleanup_skip = not panics_ok
    body = [draw(IntRange(0, 100), "x", "x")]
    n = rng.randrange(2, 8)
    for _ in range(n):
        r = rng.random()
        if r < 0.2:
            body.append(draw(_small_gen(rng), "v%d" % len(body)))
        elif r < 0.35:
            body.append(_cond(rng, "x", [_sig(rng, panics_ok=panics_ok)]))
        elif r < 0.45:
            body.append(_cond(rng, "x", [op("skip")]))
        elif r < 0.6:
            body.append(op("cleanup", body=_cleanup_body(rng, "x", allow_cleanup_skip, panics_ok)))
        elif r < 0.68:
            body.append(op(rng.choice(["ctx", "ctxlive"]), text="body"))
        elif r < 0.8:
            cb = [draw(IntRange(0, 100), "a", "a")]
            for _ in range(rng.randrange(0, 3)):
                cb.append(rng.choice([_cond(rng, "a", [op("skip")]), _cond(rng, "a", [_sig(rng, fatal_ok=rng.random() < 0.3, panics_ok=panics_ok)]),
                                      op("cleanup", body=_cleanup_body(rng, "a", False, panics_ok)), op("ctx", text="custom")]))
            body.append(draw(g("Custom", elem=_small_gen(rng), body=cb, fresh=rng.random() < 0.5), "c%d" % len(body)))
        elif r < 0.9 and machines:
            acts = {}
            for j in range(rng.randrange(1, 4)):
                kind = rng.choice(["ok", "skipafter", "skipbefore", "sig", "cleanup"])
                if kind == "ok":
                    acts["a%d" % j] = [draw(g("Bool"), "b"), op("incvar", var="n")]
                elif kind == "skipafter":
                    acts["a%d" % j] = [draw(IntRange(0, 9), "r", "r"), iff("r", "ge", 5, [op("skip")]), op("incvar", var="n")]
                elif kind == "skipbefore":
                    acts["a%d" % j] = [iff("n", "ge", 2, [op("skip")]), draw(g("Byte"), "q")]
                elif kind == "sig":
                    acts["a%d" % j] = [draw(IntRange(0, 100), "y", "y"), _cond(rng, "y", [_sig(rng, panics_ok=panics_ok)])]
                else:
                    acts["a%d" % j] = [op("cleanup", body=[op("ctx", text="in-cleanup")]), draw(g("Bool"), "w")]
            rep = {"op": "repeat", "actions": acts}
            if rng.random() < 0.5:
                rep["inv"] = [op("incvar", var="i"), iff("i", "ge", rng.randrange(2, 9), [_sig(rng, panics_ok=panics_ok)])]
            body.insert(1, op("setvar", var="n", val="0"))
            body.insert(1, op("setvar", var="i", val="0"))
            body.append(rep)
        elif goroutines:
            gb = [rng.choice([op("ctx", text="g"), op("failed"), op("cleanup", body=[]), op("helper"), op("name")])]
            if rng.random() < 0.4:
                gb.append(_cond(rng, "x", [_sig(rng, fatal_ok=False)]))
            body.append(op("go", n=rng.randrange(1, 4), body=gb))
        else:
            body.append(op("log", text="x"))
    if rng.random() < 0.5:
        body.append(_cond(rng, "x", [_sig(rng, panics_ok=panics_ok)]))
    return body


def random_scripts(prefix, tier, seed, n_quick, n_thorough, flags=None, goroutines=True, machines=True, tag=None, runs=None):
    rng = random.Random(seed * 7919 + len(prefix))
    out = []
    for i in range(n_quick if tier == "quick" else n_thorough):
        fl = {"checks": rng.choice([5, 30, 100]), "seed": rng.randrange(1, 1 << 64), "nofailfile": rng.choice(["true", "true", "false"]),
              "shrinktime": rng.choice(["0s", "100ms", "30s"]), "steps": rng.choice([3, 10])}
        if flags:
            fl.update(flags)
        t = {"random_script": True}
        if tag:
            t.update(tag)
        out.append(scenario("%s-rnd-%d" % (prefix, i), {"body": random_body(rng, goroutines, machines)}, fl, tag=t, runs=runs))
    return out
