"""Per-property checks."""
import concurrent.futures as cf
import json
import os
import shutil
import time

from . import core, scen

TRACE_CFG = """SPECIFICATION Spec
CONSTANTS
  Design = "repaired"
  InvalidMult = 10
  Property = "%s"
  Less <- TLess
CONSTRAINT HW
POSTCONDITION Accepted
CHECK_DEADLOCK FALSE
"""

NCPU = os.cpu_count() or 4
MAX_PER_TRACE = 60


def chunks(xs, n):
    k = max(1, (len(xs) + n - 1) // n)
    return [xs[i:i + k] for i in range(0, len(xs), k)]


def run_scenarios_parallel(binary, scenarios, events, wd, par=None, timeout=1800, extra=(), env=None):
    """Run scenarios in `par` harness processes (rapid's flags are process-global, so one
    process runs its scenarios sequentially).  Returns list of trace paths."""
    par = par or min(NCPU, max(1, len(scenarios) // 4))
    nparts = max(par, (len(scenarios) + MAX_PER_TRACE - 1) // MAX_PER_TRACE)   # bounded trace files: TLC holds a trace in memory
    parts = chunks(scenarios, nparts)
    paths = []

    def one(i):
        out = os.path.join(wd, f"trace{i}.ndjson")
        n, p = core.run_harness(binary, parts[i], out, events, timeout=timeout, extra=extra, env=env)
        return out, n

    with cf.ThreadPoolExecutor(max_workers=min(len(parts), NCPU)) as ex:
        for out, n in ex.map(one, range(len(parts))):
            paths.append(out)
    return paths


def validate_parallel(module, cfg_text, paths, timeout=1800):
    results = []
    with cf.ThreadPoolExecutor(max_workers=min(len(paths), max(1, NCPU // 2))) as ex:
        futs = [ex.submit(core.validate_trace, module, cfg_text, p, timeout) for p in paths]
        for f in futs:
            results.append(f.result())
    tot = {"violations": [], "binding_lost": set(), "scenarios": 0, "lines": 0, "tlc_states": 0, "rounds": 0, "wall": 0.0}
    for r in results:
        tot["violations"] += r["violations"]
        tot["binding_lost"] |= set(r["binding_lost"])
        for k in ("scenarios", "lines", "tlc_states", "rounds"):
            tot[k] += r[k]
        tot["wall"] = max(tot["wall"], r["wall"])
    tot["binding_lost"] = sorted(tot["binding_lost"])
    return tot


def scan_traces(paths, rule):
    """Measure what the run covered: per scenario, rule(events) -> signature string or None (trivial)."""
    evaluations, nontrivial, sigs, samples, invocations = 0, 0, set(), [], 0
    for p in paths:
        for sid, lines in core.split_scenarios(p):
            if sid is None:
                continue
            evs = [json.loads(x) for x in lines]
            evaluations += 1
            invocations += sum(1 for e in evs if e["ev"] == "h.once.end")
            sig = rule(evs)
            if sig is not None:
                nontrivial += 1
                sigs.add(sid)
                if len(samples) < 3:
                    samples.append({"scenario": sid, "what": sig,
                                    "trace_excerpt": [compact(e) for e in evs if e["ev"] in SAMPLE_EVENTS][:14]})
    return {"evaluations": evaluations, "nontrivial": nontrivial, "distinct_nontrivial": len(sigs), "samples": samples,
            "invocations": invocations}


SAMPLE_EVENTS = {"run.begin", "h.phase", "call", "h.once.end", "tb.errorf", "h.accept", "run.end", "h.ff.load", "fuzz.end"}


def compact(e):
    out = {}
    for k, v in e.items():
        if k in ("files", "best", "cand", "new", "buf", "data", "text", "names"):
            if isinstance(v, dict) and "id" in v:
                out[k] = v["id"]
            continue
        if isinstance(v, dict) and "d" in v:
            out[k] = v["d"]
        elif isinstance(v, dict) and "class" in v:
            out[k] = v["class"] + ("@" + v["site"][-6:] if v.get("site") else "")
        else:
            out[k] = v
    return out


def reported(evs):
    for e in evs:
        if e["ev"] == "tb.errorf" and e.get("class") in ("failed", "panic", "flaky"):
            return e["class"]
    return None


def rule_failure_reported(evs):
    k = reported(evs)
    if k is None:
        return None
    acc = sum(1 for e in evs if e["ev"] == "h.accept" and e.get("how") == "accepted")
    return f"{k} reported after {sum(1 for e in evs if e['ev']=='h.once.end')} invocations, {acc} accepted minimization steps"


def rule_signal(evs):
    calls = [e["m"] for e in evs if e["ev"] == "call" and e["m"] != "skip"]
    if not calls:
        return None
    return f"signals {sorted(set(calls))}, reported={reported(evs)}"


def rule_any(evs):
    n = sum(1 for e in evs if e["ev"] == "h.once.end")
    return f"{n} invocations" if n > 1 else None


def rule_accepts(evs):
    acc = sum(1 for e in evs if e["ev"] == "h.accept" and e.get("how") == "accepted")
    if reported(evs) is None:
        return None
    return f"{acc} accepted steps, {sum(1 for e in evs if e['ev']=='h.accept')} candidates"


def rule_tworuns(evs):
    runs = [e for e in evs if e["ev"] == "run.end"]
    if len(runs) < 2 or reported(evs) is None:
        return None
    return f"{len(runs)} runs, first reported {reported(evs)}"


def run_mc(specs, tier):
    """specs: list of (module, cfg file, expect) with expect in {'hold', 'violate'}."""
    states = trans = 0
    notes = []
    for module, cfgname, expect, tiers in specs:
        if tier not in tiers:
            continue
        res = core.model_check(module, core.read_cfg(cfgname), workers=min(NCPU, 12), timeout=3000)
        states += res["distinct"]
        trans += res["generated"]
        if expect == "hold" and not res["ok"]:
            raise core.Undecided(f"design model {cfgname} is violated ({res['violated']}): a model-level counterexample, "
                                 f"not a verdict about the code\n" + res["out"][-3000:])
        if expect == "violate" and not res["violated"]:
            raise core.Undecided(f"design model {cfgname} no longer exposes the defects of the pinned design: vacuous")
        notes.append({"module": module, "cfg": cfgname, "expect": expect, "distinct": res["distinct"], "generated": res["generated"],
                      "violated": res["violated"][:3], "wall_s": round(res["wall"], 1), "from_cache": bool(res.get("cached"))})
    return states, trans, notes


ENGINE_MC = [("EngineMC", "EngineMC.cfg", "hold", ("quick", "thorough")),
             ("EngineMC", "EngineMC_pinned.cfg", "violate", ("quick", "thorough")),
             ("EngineMC", "EngineMC_live.cfg", "hold", ("quick", "thorough")),               # liveness: Check terminates without a time limit
             ("EngineMC", "EngineMC_live_broken.cfg", "violate", ("quick", "thorough")),
             ("EngineMC", "EngineMC_explicit_broken.cfg", "violate", ("quick", "thorough")),
             ("EngineMC", "EngineMC_early_broken.cfg", "violate", ("quick", "thorough")),
             ("EngineMC", "EngineMC_big.cfg", "hold", ("thorough",))]


def engine_check(pid, tier, seed, replay, gen, rule, design_ref, assumptions, keep=False, mc=ENGINE_MC, events=core.ENGINE_EVENTS,
                 module="EngineTrace", cfg=TRACE_CFG, env=None, extra=(), more_traces=None):
    t0 = time.time()
    if replay:
        with open(replay) as f:
            scenarios = [json.load(f)["scenario"]]
    else:
        scenarios = gen(tier, seed)
    by_id = {s["id"]: s for s in scenarios}
    assert len(by_id) == len(scenarios), "scenario ids must be unique"
    binary = core.build_harness()
    wd = core.scratch("verif-run-")
    try:
        paths = run_scenarios_parallel(binary, scenarios, events, wd, env=env, extra=extra)
        if more_traces and not replay:
            extra_scen, extra_paths = more_traces(binary, wd)
            paths += extra_paths
            for s in extra_scen:
                by_id[s["id"]] = s
        if keep:
            shutil.copytree(wd, os.path.join("/tmp", f"keep-{pid}"), dirs_exist_ok=True)
        t1 = time.time()
        core.log(f"[{pid}] {len(scenarios)} scenarios executed on the real code in {t1-t0:.1f}s")
        val = validate_parallel(module, cfg % pid, paths)
        t2 = time.time()
        core.log(f"[{pid}] {val['lines']} events validated against {module} in {t2-t1:.1f}s "
                 f"({val['rounds']} TLC runs), violations: {len(val['violations'])}, binding lost: {val['binding_lost']}")
        cov = scan_traces(paths, rule)
    finally:
        shutil.rmtree(wd, ignore_errors=True)
    known, new = core.classify(pid, val["violations"])
    for v in known:
        print(f"KNOWN-FINDING: property={pid} {v['finding']} (scenario {v['scenario']}: {','.join(v['names'])})")
    rc = 0
    for v in new:
        path = core.write_replay(pid, by_id.get(v["scenario"]), v)
        print(f"VIOLATION property={pid} replay={path}")
        core.log(f"   scenario {v['scenario']}: obligations violated: {v['names']}")
        rc = 1
    states = trans = 0
    notes = []
    if not replay:
        states, trans, notes = run_mc(mc, tier)
    if cov["evaluations"] == 0 or (cov["distinct_nontrivial"] < 2 and not replay):
        raise core.Undecided(f"nothing non-trivial was exercised ({cov})")
    coverage = {
        "states": max(1, states + val["tlc_states"]), "transitions": max(1, trans + val["lines"]),
        "traces_validated_against_impl": val["scenarios"],
        "samples": cov["samples"] or [{"note": "no non-trivial sample"}],
        "evaluations": cov["evaluations"], "distinct_nontrivial": cov["distinct_nontrivial"],
        "rule": RULES_TEXT.get(pid, ""), "exhaustive": False,
        "design_model_states": states, "design_model_transitions": trans, "design_models": notes,
        "trace_events_validated": val["lines"], "property_invocations_observed": cov["invocations"],
        "binding_lost": val["binding_lost"], "known_findings": len(known),
        "checker_cmd": f"tlc {module}.tla (Property={pid}) on traces recorded by harness.test -tags verif; tlc " + ", ".join(sorted({m[0] for m in mc})),
    }
    core.write_evidence(pid, tier, seed, "model_checking", coverage, time.time() - t0, len(new), assumptions)
    return rc


RULES_TEXT = {
    "C01": "one case = one Check of a scripted property (template x seed x checks x minimization mode incl. deterministic cut); non-trivial = a failure was found and reported, so the report/persist/final-replay obligations were exercised",
    "C02": "one case = one Check with one failure kind in one callback context at one position (value-keyed test cases); non-trivial = the falsifying signal was actually raised in an executed test case",
    "C05": "one case = one Check of a (multi-site) scripted property; non-trivial = a failure was found and the minimizer ran (accept events checked for strict short-lex decrease, same site, result <= original)",
    "C04": "one case = a three-run history of a property that fails after its draws (so every seed is recorded): Check with a fixed seed and no minimization (generation, reproduction with recording, final replay of the pruned recording); MakeFuzz on the words as recorded and on the pruned words; the same seed again after unrelated checks; non-trivial = a recording was made and replayed both ways",
    "C13": "one case = one property with ~70 byte inputs (all lengths 0..24 in 5 byte patterns, random inputs of 1..1000 bytes each repeated, extended by extra bytes, and explicitly zero-padded) plus a fail-file replay of the words of one input; non-trivial = at least two fuzz calls",
    "C06": "one case = a three-run history fail -> re-run without flags -> re-run in a clean directory with -rapid.failfile, over test names (unicode, separators, reserved characters, device names, long), bodies (incl. the empty bitstream) and captured outputs (nothing, arbitrary bytes, '#' lines, CR/LF, lines of 64 KiB..1 MiB); non-trivial = the first run saved a fail file",
    "C17": "one case = a two-run history with a fixed seed: clean directory, then the same with 1..5 unusable files (random bytes, truncations, byte mutations, huge/negative numbers, missing/extra fields, other and prefix-extended versions, comments only, empty, a directory, a 64 KiB+ line, now-passing, now-invalid, one-character word, octal/binary words); non-trivial = files were offered to the engine",
    "C07": "one case = a two-run history (run, then re-run with the printed seed / the same fixed seed); non-trivial = the first run reported a failure (or both runs completed for same-seed pairs)",
    "C09": "one case = one Check with given N, skip pattern and fail files present; non-trivial = more than one invocation happened",
    "C10": "one case = one Check (or fuzz call / two-run history) of a scripted property that registers cleanups of kinds {plain, panics, registers another, nested, Errorf, Skip} in the body and in (retried) Custom functions and samples T.Context() in body, cleanup and afterwards; every invocation of every kind (generation, reproduction, minimization try/confirm, capture, final replay, fail-file runs, fuzz) is one bracket instance; non-trivial = cleanups or contexts were used",
    "C08": "one case = one Check of a state machine with 1..4 actions drawn from {ok, skip before draw (state dependent), skip after draw, always skip, fatal on j-th call, non-fatal on j-th call} with/without an invariant that may fail on its j-th run; non-trivial = at least one action was called",
    "C11": "one case = one Check whose consecutive random test cases follow a prescribed sequence of behaviours over {Errorf, Errorf+Skip, Skip, cleanup-Errorf, Custom-Errorf, pass, Fatalf, context/label probes}; non-trivial = at least two invocations",
}

ASSUME_COMMON = [
    "harness message parsing (recording TB) and the property interpreter are trusted; scripted properties are deterministic in their draws by construction",
    "hook events (build tag verif) report engine-internal facts (phase, stream identity, errors); obligations that depend only on hooks are binding obligations unless the property statement names the fact",
    "bounded design model: streams are 3 abstract ranks, checks=2, at most one fail file",
]


def c01(tier, seed, replay, keep):
    return engine_check("C01", tier, seed, replay, scen.c01, rule_failure_reported, "4/C01", ASSUME_COMMON, keep)


def c02(tier, seed, replay, keep):
    return engine_check("C02", tier, seed, replay, scen.c02, rule_signal, "4/C02", ASSUME_COMMON + [
        "three scenarios run MakeCheck under a real test deadline (-test.timeout=12s) with an 8 s falsifying test case: only the sub-test's status is observed"],
        keep, more_traces=deadline_runner(scen.c02_deadline, tier, seed))


def c05(tier, seed, replay, keep):
    return engine_check("C05", tier, seed, replay, scen.c05, rule_accepts, "4/C05", ASSUME_COMMON, keep)


def c07(tier, seed, replay, keep):
    def short_runs(binary, wd):
        sc = scen.c07_short(tier, seed)
        out = os.path.join(wd, "short.ndjson")
        core.run_harness(binary, sc, out, core.ENGINE_EVENTS, timeout=900, extra=("-test.short",))
        return sc, [out]
    return engine_check("C07", tier, seed, replay, scen.c07, rule_tworuns, "4/C07", ASSUME_COMMON, keep, more_traces=short_runs)


def deadline_runner(gen, tier, seed):
    def deadline_runs(binary, wd):
        # each of these needs its own process: the harness binary itself runs under a test deadline (-test.timeout)
        sc = gen(tier, seed)
        paths = []
        with cf.ThreadPoolExecutor(max_workers=len(sc)) as ex:
            def one(j):
                out = os.path.join(wd, f"deadline{j}.ndjson")
                for attempt in range(3):
                    try:
                        core.run_harness(binary, [sc[j]], out, core.ENGINE_EVENTS, timeout=120, extra=("-test.timeout", sc[j].get("tag", {}).get("timeout", "9s")))
                        break
                    except core.Undecided:
                        # on a heavily loaded machine the test binary itself can run into its -test.timeout (it then dies without a verdict): try again
                        if attempt == 2:
                            raise
                return out
            paths = list(ex.map(one, range(len(sc))))
        return sc, paths
    return deadline_runs


def c09(tier, seed, replay, keep):
    deadline_runs = deadline_runner(scen.c09_deadline, tier, seed)
    return engine_check("C09", tier, seed, replay, scen.c09, rule_any, "4/C09", ASSUME_COMMON + [
        "two scenarios run MakeCheck under a real test deadline (-test.timeout=9s, 300 ms per test case): timing-dependent, "
        "they only require the documented rule (early exit passes only with at least one valid case)"], keep, more_traces=deadline_runs)


def c11(tier, seed, replay, keep):
    return engine_check("C11", tier, seed, replay, scen.c11, rule_any, "4/C11", ASSUME_COMMON, keep)


INV_EVENTS = ("example.begin,example.end,scen.begin,scen.end,run.begin,run.end,h.phase,h.once.begin,h.once.end,inv.begin,inv.end,cinv.begin,cinv.end,"
              "h.custom.begin,h.custom.end,cleanup.reg,cleanup.run,cleanup.end,ctx,sm.begin,sm.end,sm.inv.begin,sm.inv.end,"
              "sm.action.begin,sm.action.end,draw,call,h.repeat.more,h.action.res,h.action.none,h.overrun,tb.errorf,tb.logf,fuzz.begin,fuzz.end,harness.done")
INV_CFG = """SPECIFICATION Spec
CONSTANTS
  Property = "%s"
CONSTRAINT HW
POSTCONDITION Accepted
CHECK_DEADLOCK FALSE
"""
INV_MC = [("Cleanup", "CleanupMC.cfg", "hold", ("quick", "thorough")),
          ("Cleanup", "CleanupMC_broken.cfg", "violate", ("quick", "thorough"))]


def rule_cleanups(evs):
    regs = sum(1 for e in evs if e["ev"] == "cleanup.reg")
    ctxs = sum(1 for e in evs if e["ev"] == "ctx")
    invs = sum(1 for e in evs if e["ev"] == "h.once.end")
    kinds = sorted({e["kind"] for e in evs if e["ev"] == "h.phase"})
    return f"{invs} invocations of kinds {kinds}, {regs} cleanups registered, {ctxs} context samples" if regs + ctxs > 0 else None


def rule_sm(evs):
    acts = sum(1 for e in evs if e["ev"] == "sm.action.end")
    skipped = sum(1 for e in evs if e["ev"] == "sm.action.end" and not e["ret"] and e.get("last") == "skip")
    invs = sum(1 for e in evs if e["ev"] == "sm.inv.begin")
    return f"{acts} action calls ({skipped} skipped), {invs} invariant runs" if acts else None


def c10(tier, seed, replay, keep):
    return engine_check("C10", tier, seed, replay, scen.c10, rule_cleanups, "4/C10", ASSUME_COMMON[:1], keep, mc=INV_MC, events=INV_EVENTS,
                        module="InvTrace", cfg=INV_CFG)


def c08(tier, seed, replay, keep):
    return engine_check("C08", tier, seed, replay, scen.c08, rule_sm, "4/C08", ASSUME_COMMON[:1], keep, mc=SM_MC, events=INV_EVENTS,
                        module="InvTrace", cfg=INV_CFG)


SM_MC = [("RepeatSM", "RepeatSM.cfg", "hold", ("quick", "thorough")),
         ("RepeatSM", "RepeatSM_broken.cfg", "violate", ("quick", "thorough"))]

def rule_persist(evs):
    saves = [e for e in evs if e["ev"] == "h.save"]
    loads = [e for e in evs if e["ev"] == "h.ff.load"]
    if not saves:
        return None
    return f"failure saved ({saves[0]['buf']['n']} words), {len(loads)} fail-file loads in later runs"


def rule_ff(evs):
    loads = [e for e in evs if e["ev"] == "h.ff.load"]
    if not loads:
        return None
    return f"{len(loads)} files offered, {sum(1 for e in loads if not (e['ok'] and e['sameVersion']))} unusable at load, reported={reported(evs)}"


def other_fs_tmpdir():
    """A temp dir on another file system than the scenarios' working directories (the save must not depend on it)."""
    try:
        if os.path.isdir("/dev/shm") and os.stat("/dev/shm").st_dev != os.stat("/tmp").st_dev and os.access("/dev/shm", os.W_OK):
            return "/dev/shm"
    except OSError:
        pass
    return None


def c06(tier, seed, replay, keep):
    alt = other_fs_tmpdir()
    env, extra, cleanup = None, (), None
    assume = list(ASSUME_COMMON)
    if alt:
        import tempfile
        cleanup = tempfile.mkdtemp(prefix="verif-tmpdir-", dir=alt)
        work = core.scratch("verif-work-")
        env, extra = {"TMPDIR": cleanup}, ("-verif.work", work)
        assume.append("the harness runs with TMPDIR on another file system (%s) than the tests' directories" % alt)
    else:
        assume.append("no second writable file system found: saving with TMPDIR on another file system was not exercised")
    try:
        return engine_check("C06", tier, seed, replay, scen.c06, rule_persist, "4/C06", assume, keep, env=env, extra=extra)
    finally:
        if cleanup:
            shutil.rmtree(cleanup, ignore_errors=True)
            shutil.rmtree(work, ignore_errors=True)


def c17(tier, seed, replay, keep):
    return engine_check("C17", tier, seed, replay, scen.c17, rule_ff, "4/C17", ASSUME_COMMON, keep)


STREAM_EVENTS = ("hang,h.action.none,sm.action.begin,sm.action.end,cinv.begin,cinv.end,scen.begin,scen.end,run.begin,run.end,h.phase,h.ff.load,h.fuzz.buf,fuzz.begin,fuzz.end,h.bits,h.overrun,"
                 "h.prune.begin,h.prune.end,draw,call,inv.begin,inv.end,h.once.begin,h.once.end,harness.done")
STREAM_MC = [("Stream", "StreamMC.cfg", "hold", ("quick", "thorough")),
             ("Stream", "StreamMC_pinned.cfg", "violate", ("quick", "thorough"))]


def rule_replays(evs):
    fz = sum(1 for e in evs if e["ev"] == "fuzz.end")
    pr = [e for e in evs if e["ev"] == "h.prune.begin"]
    if not pr or fz < 2:
        return None
    disc = sum(1 for g_ in pr[0]["groups"] if g_["discard"])
    return f"recording of {pr[0]['data']['n']} words with {disc} discarded groups replayed as recorded and pruned ({fz} fuzz calls)"


def rule_fuzz(evs):
    fz = [e for e in evs if e["ev"] == "fuzz.end"]
    if len(fz) < 2:
        return None
    st = {}
    for e in fz:
        st[e["status"]] = st.get(e["status"], 0) + 1
    return f"{len(fz)} fuzz calls: {st}"


def c04(tier, seed, replay, keep):
    def short_runs(binary, wd):
        # a harness process started with -test.short
        sc = scen.c04_short(tier, seed)
        out = os.path.join(wd, "short.ndjson")
        core.run_harness(binary, sc, out, STREAM_EVENTS, timeout=600, extra=("-test.short",))
        return sc, [out]
    return engine_check("C04", tier, seed, replay, scen.c04, rule_replays, "4/C04", ASSUME_COMMON[:2], keep, mc=STREAM_MC, events=STREAM_EVENTS,
                        module="StreamTrace", cfg=INV_CFG, more_traces=short_runs)


def c13(tier, seed, replay, keep):
    return engine_check("C13", tier, seed, replay, scen.c13, rule_fuzz, "4/C13", ASSUME_COMMON[:2], keep, mc=STREAM_MC[:1], events=STREAM_EVENTS,
                        module="StreamTrace", cfg=INV_CFG, extra=("-verif.hang", "20s"))


TABLE = {"C04": c04, "C13": c13, "C06": c06, "C17": c17, "C08": c08, "C10": c10, "C01": c01, "C02": c02, "C05": c05, "C07": c07, "C09": c09, "C11": c11}


def run(pid, tier, seed, replay, keep=False):
    if pid in ("C03", "C12", "C18"):
        from . import gens
        return {"C03": gens.run_c03, "C12": gens.run_c12, "C18": gens.run_c18}[pid](tier, seed, replay, keep)
    if pid == "C14":
        from . import conc
        return conc.run_c14(tier, seed, replay, keep)
    if pid == "C15":
        from . import conc
        return conc.run_c15(tier, seed, replay, keep)
    if pid == "C16":
        from . import c16
        return c16.run(tier, seed, replay, keep)
    if pid not in TABLE:
        raise core.Undecided(f"no check for {pid}")
    return TABLE[pid](tier, seed, replay, keep)
