"""C16: crash atomicity of the fail-file save: strace-recorded syscall traces and real kills."""
import json
import os
import re
import shutil
import subprocess
import tempfile
import time

from . import core, scen, props

SYSCALLS = "mkdir,mkdirat,open,openat,creat,write,pwrite64,writev,close,rename,renameat,renameat2,unlink,unlinkat,link,linkat,ftruncate,truncate"

RE_LINE = re.compile(r"^(\d+)\s+(\w+)\((.*)\)\s+=\s+(-?\d+)(.*)$")
RE_FDPATH = re.compile(r"^\d+<([^>]*)>")
RE_STR = re.compile(r'"((?:[^"\\]|\\.)*)"')


def unesc(s):
    """strace prints non-ASCII bytes as octal escapes"""
    import codecs
    try:
        return codecs.escape_decode(s.encode("latin-1", "replace"))[0].decode("utf-8", "replace")
    except Exception:
        return s


def rel(path, cwd):
    if path.startswith(cwd + "/"):
        return path[len(cwd) + 1:]
    return path


def classify(path, name):
    s = scen.safe_name(name)
    d, b = os.path.split(path)
    glob = d == "testdata/rapid/" + s and b.startswith(s + "-") and b.endswith(".fail")
    return glob


def parse_strace(text, cwd, name):
    """strace -f -y output -> list of sys events on paths below testdata/ (syntactic translation only)."""
    evs = []
    pending = {}
    for raw in text.splitlines():
        m = re.match(r"^(\d+)\s+(.*)$", raw)
        if not m:
            continue
        pid, rest = m.group(1), m.group(2)
        if rest.endswith("<unfinished ...>"):
            pending[pid] = rest[:-len("<unfinished ...>")].rstrip()
            continue
        mr = re.match(r"^<\.\.\. (\w+) resumed>(.*)$", rest)
        if mr and pid in pending:
            rest = pending.pop(pid) + mr.group(2)
        m = RE_LINE.match(pid + " " + rest)
        if not m:
            continue
        call, args, ret = m.group(2), m.group(3), int(m.group(4))
        strs = [unesc(s) for s in RE_STR.findall(args)]

        def full(p):
            return p if p.startswith("/") else os.path.normpath(os.path.join(cwd, p))
        e = None
        if call in ("mkdir", "mkdirat") and strs:
            e = {"op": "mkdir", "path": rel(full(strs[0]), cwd)}
        elif call in ("open", "openat", "creat") and strs and ("O_CREAT" in args or call == "creat") and ret >= 0:
            e = {"op": "create", "path": rel(full(strs[0]), cwd)}
            if "O_TRUNC" in args or "O_EXCL" in args or call == "creat":
                pass
        elif call in ("write", "pwrite64", "writev"):
            mp = RE_FDPATH.match(args)
            if mp and ret > 0:
                e = {"op": "write", "path": rel(unesc(mp.group(1)), cwd), "n": ret}
        elif call in ("ftruncate", "truncate"):
            mp = RE_FDPATH.match(args)
            p = unesc(mp.group(1)) if mp else (full(strs[0]) if strs else "")
            mn = re.search(r",\s*(\d+)\s*$", args)
            e = {"op": "truncate", "path": rel(p, cwd), "n": int(mn.group(1)) if mn else 0}
        elif call == "close":
            mp = RE_FDPATH.match(args)
            if mp:
                e = {"op": "close", "path": rel(unesc(mp.group(1)), cwd)}
        elif call in ("rename", "renameat", "renameat2", "link", "linkat") and len(strs) >= 2 and ret == 0:
            e = {"op": "rename" if call.startswith("rename") else "link", "path": rel(full(strs[0]), cwd), "to": rel(full(strs[1]), cwd)}
        elif call in ("unlink", "unlinkat") and strs:
            if ret == 0 and "AT_REMOVEDIR" not in args:
                e = {"op": "unlink", "path": rel(full(strs[0]), cwd)}
        if e is None or not e["path"].startswith("testdata/"):
            continue
        e.setdefault("n", 0)
        e.setdefault("to", "")
        e["glob"] = classify(e["path"], name)
        e["toglob"] = classify(e["to"], name) if e["to"] else False
        e["ret"] = ret
        evs.append(e)
    return evs


FS_CFG = """SPECIFICATION Spec
CONSTANTS
  Property = "%s"
CONSTRAINT HW
POSTCONDITION Accepted
CHECK_DEADLOCK FALSE
"""

FS_MC = [("FailFileFS", "FSMC_0.cfg", "hold", ("quick", "thorough")), ("FailFileFS", "FSMC_1.cfg", "hold", ("quick", "thorough")),
         ("FailFileFS", "FSMC_3.cfg", "hold", ("quick", "thorough")),
         ("FailFileFS", "FSMC_broken_direct.cfg", "violate", ("quick", "thorough")),
         ("FailFileFS", "FSMC_broken_tmpglob.cfg", "violate", ("quick", "thorough")),
         ("FailFileFS", "FSMC_broken_rename.cfg", "violate", ("quick", "thorough")),
         ("FailFileFS", "FSMC_broken_small.cfg", "violate", ("quick", "thorough"))]


def apalache_induction(tier):
    """Unbounded safety of the save protocol (every number of write operations) by an inductive invariant, discharged with Apalache.
    Returns notes for the evidence; a failed obligation of the implementation's design is a model-level problem (exit 2), like a failing TLC design model."""
    if not shutil.which("apalache-mc"):
        return [{"apalache": "not installed: the inductive argument was not run"}]
    wd = core.scratch("verif-apalache-")
    notes = []
    try:
        for fn in ("FailFileFS.tla", "FailFileFSInd.tla"):
            shutil.copy(os.path.join(core.SPEC, fn), wd)
        runs = [("CInit", "--init=Init --inv=IndInv --length=0", True), ("CInit", "--init=IndInit --inv=IndInv --length=1", True),
                ("CInit", "--init=IndInit --inv=AtomicVisible --length=0", True)]
        if tier == "thorough":
            runs += [("CInitDirect", "--init=IndInit --inv=IndInv --length=1", False), ("CInitRename", "--init=IndInit --inv=IndInv --length=1", False)]
        for cinit, args, hold in runs:
            t0 = time.time()
            try:
                p = subprocess.run(["apalache-mc", "check", "--cinit=" + cinit, *args.split(), "FailFileFSInd.tla"], cwd=wd, capture_output=True, text=True, timeout=600)
            except subprocess.TimeoutExpired:
                notes.append({"apalache": cinit + " " + args, "result": "timeout (not counted)"})
                continue
            ok = "The outcome is: NoError" in p.stdout
            err = "The outcome is: Error" in p.stdout
            if not ok and not err:
                notes.append({"apalache": cinit + " " + args, "result": "did not run (not counted)"})
                continue
            if hold and not ok:
                raise core.Undecided("Apalache: obligation of the inductive invariant fails for the implementation's design: " + args + "\n" + p.stdout[-1500:])
            if not hold and ok:
                raise core.Undecided("Apalache: the inductive step holds for a wrong design (" + cinit + "): vacuous")
            notes.append({"apalache": cinit + " " + args, "result": "holds" if ok else "fails (expected: wrong design)", "wall_s": round(time.time() - t0, 1)})
    finally:
        shutil.rmtree(wd, ignore_errors=True)
    return notes


def sizes(tier):
    # (lines, bytes per line, words): 0 B, ~100 B, multi-write, 64 KiB, (thorough) 1 MiB outputs and long bitstreams
    base = [(0, 0, 0), (1, 60, 3), (3, 100, 10), (40, 200, 30), (1, 65536, 5), (200, 10, 2)]
    if tier == "thorough":
        base += [(1, 1 << 20, 5), (2000, 40, 3), (5, 5, 2000), (300, 3000, 100), (2, 30, 0), (0, 0, 1), (64, 4096, 64), (3, 70000, 7), (1, 4095, 1), (1, 4096, 1),
                 (1, 4097, 1), (7, 7, 7), (1000, 1, 0), (16, 65535, 3), (50, 500, 500), (1, 200000, 0)]
    return base


def run(tier, seed, replay, keep):
    t0 = time.time()
    binary = core.build_harness()
    wd = core.scratch("verif-c16-")
    names = ["TestCrash", "Test/Crash sub", "Тест"]
    try:
        # (A) strace every save once
        trace_path = os.path.join(wd, "strace.ndjson")
        nsys = 0
        samples = []
        seq = 0
        # the same saves again with the default temporary directory on another file system (where rename(2) from it would fail with EXDEV)
        alt_tmp = None
        try:
            if os.path.isdir("/dev/shm") and os.stat("/dev/shm").st_dev != os.stat(wd).st_dev:
                alt_tmp = tempfile.mkdtemp(prefix="verif-c16-tmp-", dir="/dev/shm")
        except OSError:
            alt_tmp = None
        passes = [(i, sz, None) for i, sz in enumerate(sizes(tier))]
        if alt_tmp:
            passes += [(len(sizes(tier)) + i, sz, alt_tmp) for i, sz in enumerate(sizes(tier)[:4])]
        # ... and with -rapid.log (rapid's own eager logger; the save must be the same single publication)
        passes += [(2 * len(sizes(tier)) + i, sz, "log") for i, sz in enumerate(sizes(tier)[1:4])]
        with open(trace_path, "w") as out:
            for i, (lines, lineN, words), tmpdir in passes:
                name = names[i % len(names)]
                d = os.path.join(wd, f"st{i}")
                os.makedirs(d)
                spec = json.dumps({"name": name, "lines": lines, "lineN": lineN, "words": words, "killAt": 0, "log": tmpdir == "log"})
                if tmpdir == "log":
                    tmpdir = None
                so = os.path.join(wd, f"strace{i}.txt")
                cmd = ["strace", "-f", "-y", "-s", "0", "-o", so, "-e", "trace=" + SYSCALLS, binary, "-test.run", "^TestVerifChild$",
                       "-test.timeout", "0", "-verif.child", spec]
                p = subprocess.run(cmd, cwd=d, env=dict(core.GOENV, TMPDIR=tmpdir) if tmpdir else core.GOENV, capture_output=True, text=True, timeout=300)
                if p.returncode != 0 or not os.path.exists(so):
                    raise core.Undecided("strace run failed: " + p.stderr[-2000:])
                evs = parse_strace(open(so, errors="replace").read(), d, name)
                final = 0
                sizes_ = {}
                for e in evs:
                    if e["op"] == "create":
                        sizes_[e["path"]] = 0
                    elif e["op"] == "write" and e["path"] in sizes_:
                        sizes_[e["path"]] += e["n"]
                    elif e["op"] in ("rename", "link") and e["path"] in sizes_:
                        sizes_[e["to"]] = sizes_[e["path"]]
                        if e["op"] == "rename":
                            del sizes_[e["path"]]
                for pth, sz in sizes_.items():
                    if classify(pth, name):
                        final = sz
                sid = f"c16-strace-{i}-{lines}x{lineN}-{words}w" + ("-tmpdir-elsewhere" if tmpdir else "")
                seq += 1
                out.write(json.dumps({"ev": "scen.begin", "seq": seq, "id": sid, "mode": "strace", "finalSize": final, "name": name}) + "\n")
                for e in evs:
                    seq += 1
                    out.write(json.dumps(dict(e, ev="sys", seq=seq)) + "\n")
                    nsys += 1
                seq += 1
                out.write(json.dumps({"ev": "sys.end", "seq": seq}) + "\n")
                seq += 1
                out.write(json.dumps({"ev": "scen.end", "seq": seq, "id": sid}) + "\n")
                if len(samples) < 2:
                    samples.append({"scenario": sid, "syscalls": [f"{e['op']} {e['path'][-30:]} {e['n'] or ''}".strip() for e in evs][:12]})
        # (B) really kill the child at every crash point
        crash_scen = []
        for i, (lines, lineN, words) in enumerate(sizes(tier)):
            mx = 50 if tier == "quick" else 340
            crash_scen.append({"id": f"c16-crash-{i}-{lines}x{lineN}-{words}w", "name": names[i % len(names)], "lines": lines, "lineN": lineN,
                               "words": words, "max": mx, "log": i % 3 == 1})
        parts = props.chunks(crash_scen, min(len(crash_scen), props.NCPU))
        import concurrent.futures as cf
        paths = []

        def one(j):
            outp = os.path.join(wd, f"crash{j}.ndjson")
            core.run_harness(binary, parts[j], outp, "", mode="crash", timeout=3000, extra=("-verif.work", wd),
                             env={"TMPDIR": alt_tmp} if alt_tmp and j % 2 else None)
            return outp
        with cf.ThreadPoolExecutor(max_workers=len(parts)) as ex:
            paths = list(ex.map(one, range(len(parts))))
        if keep:
            shutil.copytree(wd, "/tmp/keep-C16", dirs_exist_ok=True)
        val = props.validate_parallel("FSTrace", FS_CFG % "C16", [trace_path] + paths)
        kills = 0
        points = 0
        for pth in paths:
            for line in open(pth):
                if '"crash.run"' in line:
                    e = json.loads(line)
                    points += 1
                    kills += 1 if e["killed"] else 0
                    if len(samples) < 4 and e["killed"] and e["files"]:
                        samples.append({"crash_point": e["gate"], "directory_after_kill": [
                            {"name": f["path"][-34:], "picked_up": f["glob"], "parses": f["ok"], "bytes": f.get("size")} for f in e["files"]]})
    finally:
        shutil.rmtree(wd, ignore_errors=True)
        if alt_tmp:
            shutil.rmtree(alt_tmp, ignore_errors=True)
    known, new = core.classify("C16", val["violations"])
    for v in known:
        print(f"KNOWN-FINDING: property=C16 {v['finding']} (scenario {v['scenario']})")
    rc = 0
    for v in new:
        path = core.write_replay("C16", None, v)
        print(f"VIOLATION property=C16 replay={path}")
        core.log(f"   scenario {v['scenario']}: obligations violated: {v['names']}")
        rc = 1
    states, trans, notes = props.run_mc(FS_MC, tier)
    notes = notes + apalache_induction(tier)
    if kills < 2:
        raise core.Undecided("no crash point could be exercised")
    coverage = {"states": states + val["tlc_states"], "transitions": trans + val["lines"], "traces_validated_against_impl": val["scenarios"],
                "samples": samples, "evaluations": points + len(passes), "distinct_nontrivial": kills,
                "rule": "one case = one real kill of the saving process on entry to its k-th file-system step (every k for small outputs, first/last and strided for big ones) for 6 (quick) / 10 (thorough) output sizes, plus one strace-recorded save per size whose every inter-syscall state is checked; non-trivial = the child was really killed by SIGKILL",
                "exhaustive": False, "syscalls_validated": nsys, "crash_points_killed": kills, "design_models": notes,
                "binding_lost": val["binding_lost"],
                "checker_cmd": "tlc FSTrace.tla on strace -f -y traces of the real save and on directories read back after SIGKILL at every gate; tlc FailFileFS.tla"}
    core.write_evidence("C16", tier, seed, "model_checking", coverage, time.time() - t0, len(new),
                        ["process crashes only (no power loss): completed syscalls are durable and atomic w.r.t. SIGKILL",
                         "crash points between file-system steps of saveFailFile are reached through gates (build tag verif); crash points inside a changed/added step are covered by the strace trace, whose every inter-syscall state is checked",
                         "the strace output is translated to events syntactically (call name, path, byte count)"])
    return rc
