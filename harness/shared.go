package harness

// C15: one generator value shared by concurrently running checks.  Every round
// builds the generator expression afresh (so that lazily initialised state is
// first used concurrently), draws from it in K goroutines, each with its own T
// and seed (Generator.Example), and compares with the same draws made alone on
// another fresh build.  Pairings: all draw; one goroutine calls String(); one
// uses the generator as a sub-generator; and a deterministic interleaving in
// which the first check is paused inside a user callback (key function, filter
// predicate, Custom function) while a second check runs to completion.

import (
	"encoding/json"
	"fmt"
	"os"
	"os/exec"
	"strings"
	"sync"
	"sync/atomic"
	"testing"

	"pgregory.net/rapid"
)

type SharedScenario struct {
	ID      string   `json:"id"`
	Gen     *GenSpec `json:"gen"`
	K       int      `json:"k"`
	Iters   int      `json:"iters"`
	Rounds  int      `json:"rounds"`
	Pairing string   `json:"pairing"`        // draw | string | sub | interleave | derive | namesake
	Gen2    *GenSpec `json:"gen2,omitempty"` // namesake: the generator the odd checks draw from
	PauseAt int      `json:"pauseAt"`
	Seed    int      `json:"seed"`
}

// user-callback pause (interleave pairing)
var pause struct {
	armed   atomic.Bool
	count   atomic.Int64
	target  int64
	blocked chan struct{}
	resume  chan struct{}
}

// userCallback is called from every user-supplied function the catalogue hands to rapid.
func userCallback() {
	if !pause.armed.Load() {
		return
	}
	if pause.count.Add(1) == pause.target {
		close(pause.blocked)
		<-pause.resume
	}
}

func exampleOf(b *Built, seed int) (val string, crashed bool) {
	v, _, c := exampleRaw(b, seed)
	return v, c
}

// exampleRaw also returns the value itself, so that it can be looked at again later: a drawn value belongs to the check that drew it
func exampleRaw(b *Built, seed int) (val string, raw any, crashed bool) {
	defer func() {
		if p := recover(); p != nil {
			val, raw, crashed = fmt.Sprintf("panic: %v", p), nil, true
		}
	}()
	raw = b.G.Example(seed)
	return deepVal(raw), raw, false
}

func sharedMode(t *testing.T, rec *Recorder) {
	data, err := os.ReadFile(*fIn)
	if err != nil {
		t.Fatal(err)
	}
	for _, line := range strings.Split(string(data), "\n") {
		if strings.TrimSpace(line) == "" {
			continue
		}
		var sc SharedScenario
		if err := json.Unmarshal([]byte(line), &sc); err != nil {
			t.Fatal(err)
		}
		rec.Emit("scen.begin", F{"id": sc.ID, "pairing": sc.Pairing, "k": sc.K, "gen": sc.Gen.K})
		r := NewRunner(rec)
		if sc.Pairing == "namesake" {
			namesakeScenario(rec, &sc, r)
			rec.Emit("scen.end", F{"id": sc.ID})
			continue
		}
		for round := 0; round < sc.Rounds; round++ {
			func() {
				seedOf := func(k, i int) int { return sc.Seed + 1000*round + 37*k + i }
				spec := freshen(sc.Gen)
				// alone, on a fresh build -- made AFTER the shared draws (deferred), so that process-wide caches
				// (expanded character classes, compiled regexps) are first used by the concurrent checks
				defer func(round int) {
					solo := (&GenEnv{cache: map[*GenSpec]*Built{}, run: r}).Build(spec)
					for k := 0; k < sc.K; k++ {
						if sc.Pairing == "derive" { // every derived generator alone, from a base nothing else was derived from
							fresh := (&GenEnv{cache: map[*GenSpec]*Built{}, run: r}).Build(spec)
							solo = &Built{G: fresh.Derive(k)}
						}
						for i := 0; i < sc.Iters; i++ {
							v, raw, crashed := exampleRaw(solo, seedOf(k, i))
							if (sc.Gen.K == "Permutation" || sc.Gen.K == "MapSampled") && !crashed {
								useUp(raw)
							}
							rec.Emit("solo", F{"key": fmt.Sprintf("r%d/k%d/i%d", round, k, i), "draws": v, "crashed": crashed})
						}
					}
				}(round)
				// shared, on another fresh build
				shared := (&GenEnv{cache: map[*GenSpec]*Built{}, run: r}).Build(spec)
				results := make([][]string, sc.K)
				crashes := make([][]bool, sc.K)
				raws := make([][]any, sc.K)
				posts := make([][]string, sc.K) // what the value looked like when the check was done with it
				if sc.Pairing == "interleave" {
					pause.count.Store(0)
					pause.target = int64(sc.PauseAt)
					pause.blocked, pause.resume = make(chan struct{}), make(chan struct{})
					pause.armed.Store(true)
					done1 := make(chan struct{})
					go func() {
						defer close(done1)
						v, c := exampleOf(shared, seedOf(0, 0))
						results[0], crashes[0] = []string{v}, []bool{c}
					}()
					select {
					case <-pause.blocked:
					case <-done1:
					}
					pause.armed.Store(false)
					for k := 1; k < sc.K; k++ {
						v, c := exampleOf(shared, seedOf(k, 0))
						results[k], crashes[k] = []string{v}, []bool{c}
					}
					close(pause.resume)
					<-done1
					for k := 0; k < sc.K; k++ {
						rec.Emit("shared", F{"key": fmt.Sprintf("r%d/k%d/i%d", round, k, 0), "draws": results[k][0], "crashed": crashes[k][0]})
					}
					return
				}
				var wg sync.WaitGroup
				start := make(chan struct{})
				for k := 0; k < sc.K; k++ {
					k := k
					wg.Add(1)
					go func() {
						defer wg.Done()
						<-start
						mine := shared
						if sc.Pairing == "derive" { // every check derives its own generator from the shared one and draws from that
							mine = &Built{G: shared.Derive(k)}
						}
						for i := 0; i < sc.Iters; i++ {
							if k == 0 && sc.Pairing == "string" {
								_ = shared.G.String()
							}
							if k >= 1 && sc.Pairing == "sub" { // used as a sub-generator of another combinator, built and drawn from on the spot
								var d *rapid.Generator[any]
								switch k {
								case 1:
									d = rapid.SliceOfN(shared.G, 0, 3).AsAny()
								case 2:
									d = rapid.OneOf(shared.G, rapid.Just[any](0)).AsAny()
								case 3:
									d = shared.G.Filter(func(any) bool { return true })
								case 4:
									d = rapid.Map(shared.G, func(v any) any { return v })
								default:
									d = rapid.Custom(func(t *rapid.T) any { return shared.G.Draw(t, "s") })
								}
								_ = d.String()
								func() {
									defer func() { _ = recover() }()
									_ = d.Example(seedOf(k, i))
								}()
							}
							v, raw, c := exampleRaw(mine, seedOf(k, i))
							results[k] = append(results[k], v)
							crashes[k] = append(crashes[k], c)
							if (sc.Gen.K == "Permutation" || sc.Gen.K == "MapSampled") && !c {
								useUp(raw) // the check uses its value up (in place); the shared generator must not notice
								posts[k] = append(posts[k], deepVal(raw))
							} else {
								posts[k] = append(posts[k], v)
							}
							raws[k] = append(raws[k], raw)
						}
					}()
				}
				close(start)
				wg.Wait()
				for k := 0; k < sc.K; k++ {
					for i := range results[k] {
						// the values drawn earlier are looked at once more after everything else has been drawn: they must not have changed
						stable := crashes[k][i] || deepVal(raws[k][i]) == posts[k][i]
						rec.Emit("shared", F{"key": fmt.Sprintf("r%d/k%d/i%d", round, k, i), "draws": results[k][i], "crashed": crashes[k][i], "stable": stable})
					}
				}
			}()
		}
		rec.Emit("scen.end", F{"id": sc.ID})
	}
}

func init() {
	modes["shared"] = sharedMode
}

var freshCounter atomic.Int64

// freshen replaces %FRESH% in a regexp by a large character class never used before in this process,
// so that its (cached) expansion happens at first use.
func freshen(s *GenSpec) *GenSpec {
	if s == nil || !strings.Contains(s.Expr, "%FRESH%") {
		return s
	}
	c := *s
	base := 0x10000 + int(freshCounter.Add(1))*3
	c.Expr = strings.ReplaceAll(s.Expr, "%FRESH%", fmt.Sprintf(`[\x{%x}-\x{%x}]`, base, base+0x3ffff))
	return &c
}

// ---- namesake pairing ------------------------------------------------------------------------------------------------
// Two DIFFERENT generator values whose lazily built parts go by the same name inside rapid (a character class and its
// case-insensitive twin print alike) are drawn from by concurrently running checks, even checks from the first, odd
// checks from the second.  "Alone" means alone in a process here: the reference draws of each generator are made by a
// new process of this binary that never sees the other one.

type soloJob struct {
	Specs []*GenSpec `json:"specs"` // one per round (already freshened)
	Ks    []int      `json:"ks"`
	Iters int        `json:"iters"`
	Seed  int        `json:"seed"`
}

type soloDraw struct {
	Key     string `json:"key"`
	Draws   string `json:"draws"`
	Crashed bool   `json:"crashed"`
}

func namesakeSeed(seed, round, k, i int) int { return seed + 1000*round + 37*k + i }

func freshenPair(a, b *GenSpec) (*GenSpec, *GenSpec) {
	base := 0x10000 + int(freshCounter.Add(1))*3
	cls := fmt.Sprintf(`[\x{%x}-\x{%x}]`, base, base+0x3ffff)
	ca, cb := *a, *b
	ca.Expr = strings.ReplaceAll(a.Expr, "%FRESH%", cls)
	cb.Expr = strings.ReplaceAll(b.Expr, "%FRESH%", cls)
	return &ca, &cb
}

func namesakeScenario(rec *Recorder, sc *SharedScenario, r *Runner) {
	jobs := [2]soloJob{{Iters: sc.Iters, Seed: sc.Seed}, {Iters: sc.Iters, Seed: sc.Seed}}
	for k := 0; k < sc.K; k++ {
		jobs[k%2].Ks = append(jobs[k%2].Ks, k)
	}
	for round := 0; round < sc.Rounds; round++ {
		sa, sb := freshenPair(sc.Gen, sc.Gen2)
		jobs[0].Specs, jobs[1].Specs = append(jobs[0].Specs, sa), append(jobs[1].Specs, sb)
		built := [2]*Built{(&GenEnv{cache: map[*GenSpec]*Built{}, run: r}).Build(sa), (&GenEnv{cache: map[*GenSpec]*Built{}, run: r}).Build(sb)}
		results := make([][]soloDraw, sc.K)
		var wg sync.WaitGroup
		start := make(chan struct{})
		for k := 0; k < sc.K; k++ {
			k := k
			wg.Add(1)
			go func() {
				defer wg.Done()
				<-start
				for i := 0; i < sc.Iters; i++ {
					v, c := exampleOf(built[k%2], namesakeSeed(sc.Seed, round, k, i))
					results[k] = append(results[k], soloDraw{fmt.Sprintf("r%d/k%d/i%d", round, k, i), v, c})
				}
			}()
		}
		close(start)
		wg.Wait()
		for k := range results {
			for _, d := range results[k] {
				rec.Emit("shared", F{"key": d.Key, "draws": d.Draws, "crashed": d.Crashed, "stable": true})
			}
		}
	}
	for j := range jobs {
		for _, d := range soloInNewProcess(rec, &jobs[j]) {
			rec.Emit("solo", F{"key": d.Key, "draws": d.Draws, "crashed": d.Crashed})
		}
	}
}

func soloInNewProcess(rec *Recorder, job *soloJob) []soloDraw {
	in, _ := os.CreateTemp("", "solo-*.in")
	b, _ := json.Marshal(job)
	_, _ = in.Write(b)
	_ = in.Close()
	out := in.Name() + ".out"
	defer os.Remove(in.Name())
	defer os.Remove(out)
	cmd := exec.Command(os.Args[0], "-test.run", "^TestVerif$", "-test.timeout", "0", "-verif.mode", "solo", "-verif.in", in.Name(), "-verif.out", out+".trace", "-verif.child", out)
	_ = cmd.Run()
	_ = os.Remove(out + ".trace")
	data, err := os.ReadFile(out)
	var res []soloDraw
	if err != nil || json.Unmarshal(data, &res) != nil {
		rec.Emit("harness.error", F{"msg": "solo process produced no result"})
		return nil
	}
	return res
}

// soloMode: the new process -- draws from the generators of one job, nothing else
func soloMode(t *testing.T, rec *Recorder) {
	data, err := os.ReadFile(*fIn)
	if err != nil {
		t.Fatal(err)
	}
	var job soloJob
	if err := json.Unmarshal(data, &job); err != nil {
		t.Fatal(err)
	}
	r := NewRunner(rec)
	var res []soloDraw
	for round, spec := range job.Specs {
		b := (&GenEnv{cache: map[*GenSpec]*Built{}, run: r}).Build(spec)
		for _, k := range job.Ks {
			for i := 0; i < job.Iters; i++ {
				v, c := exampleOf(b, namesakeSeed(job.Seed, round, k, i))
				res = append(res, soloDraw{fmt.Sprintf("r%d/k%d/i%d", round, k, i), v, c})
			}
		}
	}
	out, _ := json.Marshal(res)
	if err := os.WriteFile(*fChild, out, 0o644); err != nil {
		t.Fatal(err)
	}
}

func init() { modes["solo"] = soloMode }
