package harness

// C15: one generator value shared by concurrently running checks.  Every round
// builds the generator expression afresh (so that lazily initialised state is
// first used concurrently), draws from it in K goroutines, each with its own T
// and seed (Generator.Example), and compares with the same draws made alone on
// another fresh build.  Pairings: all draw; one goroutine calls String(); one
// uses the generator as a sub-generator; and a deterministic interleaving in
// which the first check is paused inside a user callback (key function, filter
// predicate, Custom function) while a second check runs to completion.

import (
	"encoding/json"
	"fmt"
	"os"
	"strings"
	"sync"
	"sync/atomic"
	"testing"

	"pgregory.net/rapid"
)

type SharedScenario struct {
	ID      string   `json:"id"`
	Gen     *GenSpec `json:"gen"`
	K       int      `json:"k"`
	Iters   int      `json:"iters"`
	Rounds  int      `json:"rounds"`
	Pairing string   `json:"pairing"` // draw | string | sub | interleave
	PauseAt int      `json:"pauseAt"`
	Seed    int      `json:"seed"`
}

// user-callback pause (interleave pairing)
var pause struct {
	armed   atomic.Bool
	count   atomic.Int64
	target  int64
	blocked chan struct{}
	resume  chan struct{}
}

// userCallback is called from every user-supplied function the catalogue hands to rapid.
func userCallback() {
	if !pause.armed.Load() {
		return
	}
	if pause.count.Add(1) == pause.target {
		close(pause.blocked)
		<-pause.resume
	}
}

func exampleOf(b *Built, seed int) (val string, crashed bool) {
	v, _, c := exampleRaw(b, seed)
	return v, c
}

// exampleRaw also returns the value itself, so that it can be looked at again later: a drawn value belongs to the check that drew it
func exampleRaw(b *Built, seed int) (val string, raw any, crashed bool) {
	defer func() {
		if p := recover(); p != nil {
			val, raw, crashed = fmt.Sprintf("panic: %v", p), nil, true
		}
	}()
	raw = b.G.Example(seed)
	return deepVal(raw), raw, false
}

func sharedMode(t *testing.T, rec *Recorder) {
	data, err := os.ReadFile(*fIn)
	if err != nil {
		t.Fatal(err)
	}
	for _, line := range strings.Split(string(data), "\n") {
		if strings.TrimSpace(line) == "" {
			continue
		}
		var sc SharedScenario
		if err := json.Unmarshal([]byte(line), &sc); err != nil {
			t.Fatal(err)
		}
		rec.Emit("scen.begin", F{"id": sc.ID, "pairing": sc.Pairing, "k": sc.K, "gen": sc.Gen.K})
		r := NewRunner(rec)
		for round := 0; round < sc.Rounds; round++ {
			func() {
				seedOf := func(k, i int) int { return sc.Seed + 1000*round + 37*k + i }
				spec := freshen(sc.Gen)
				// alone, on a fresh build -- made AFTER the shared draws (deferred), so that process-wide caches
				// (expanded character classes, compiled regexps) are first used by the concurrent checks
				defer func(round int) {
					solo := (&GenEnv{cache: map[*GenSpec]*Built{}, run: r}).Build(spec)
					for k := 0; k < sc.K; k++ {
						if sc.Pairing == "derive" { // every derived generator alone, from a base nothing else was derived from
							fresh := (&GenEnv{cache: map[*GenSpec]*Built{}, run: r}).Build(spec)
							solo = &Built{G: fresh.Derive(k)}
						}
						for i := 0; i < sc.Iters; i++ {
							v, raw, crashed := exampleRaw(solo, seedOf(k, i))
							if (sc.Gen.K == "Permutation" || sc.Gen.K == "MapSampled") && !crashed {
								useUp(raw)
							}
							rec.Emit("solo", F{"key": fmt.Sprintf("r%d/k%d/i%d", round, k, i), "draws": v, "crashed": crashed})
						}
					}
				}(round)
				// shared, on another fresh build
				shared := (&GenEnv{cache: map[*GenSpec]*Built{}, run: r}).Build(spec)
				results := make([][]string, sc.K)
				crashes := make([][]bool, sc.K)
				raws := make([][]any, sc.K)
				posts := make([][]string, sc.K) // what the value looked like when the check was done with it
				if sc.Pairing == "interleave" {
					pause.count.Store(0)
					pause.target = int64(sc.PauseAt)
					pause.blocked, pause.resume = make(chan struct{}), make(chan struct{})
					pause.armed.Store(true)
					done1 := make(chan struct{})
					go func() {
						defer close(done1)
						v, c := exampleOf(shared, seedOf(0, 0))
						results[0], crashes[0] = []string{v}, []bool{c}
					}()
					select {
					case <-pause.blocked:
					case <-done1:
					}
					pause.armed.Store(false)
					for k := 1; k < sc.K; k++ {
						v, c := exampleOf(shared, seedOf(k, 0))
						results[k], crashes[k] = []string{v}, []bool{c}
					}
					close(pause.resume)
					<-done1
					for k := 0; k < sc.K; k++ {
						rec.Emit("shared", F{"key": fmt.Sprintf("r%d/k%d/i%d", round, k, 0), "draws": results[k][0], "crashed": crashes[k][0]})
					}
					return
				}
				var wg sync.WaitGroup
				start := make(chan struct{})
				for k := 0; k < sc.K; k++ {
					k := k
					wg.Add(1)
					go func() {
						defer wg.Done()
						<-start
						mine := shared
						if sc.Pairing == "derive" { // every check derives its own generator from the shared one and draws from that
							mine = &Built{G: shared.Derive(k)}
						}
						for i := 0; i < sc.Iters; i++ {
							if k == 0 && sc.Pairing == "string" {
								_ = shared.G.String()
							}
							if k >= 1 && sc.Pairing == "sub" { // used as a sub-generator of another combinator, built and drawn from on the spot
								var d *rapid.Generator[any]
								switch k {
								case 1:
									d = rapid.SliceOfN(shared.G, 0, 3).AsAny()
								case 2:
									d = rapid.OneOf(shared.G, rapid.Just[any](0)).AsAny()
								case 3:
									d = shared.G.Filter(func(any) bool { return true })
								case 4:
									d = rapid.Map(shared.G, func(v any) any { return v })
								default:
									d = rapid.Custom(func(t *rapid.T) any { return shared.G.Draw(t, "s") })
								}
								_ = d.String()
								func() {
									defer func() { _ = recover() }()
									_ = d.Example(seedOf(k, i))
								}()
							}
							v, raw, c := exampleRaw(mine, seedOf(k, i))
							results[k] = append(results[k], v)
							crashes[k] = append(crashes[k], c)
							if (sc.Gen.K == "Permutation" || sc.Gen.K == "MapSampled") && !c {
								useUp(raw) // the check uses its value up (in place); the shared generator must not notice
								posts[k] = append(posts[k], deepVal(raw))
							} else {
								posts[k] = append(posts[k], v)
							}
							raws[k] = append(raws[k], raw)
						}
					}()
				}
				close(start)
				wg.Wait()
				for k := 0; k < sc.K; k++ {
					for i := range results[k] {
						// the values drawn earlier are looked at once more after everything else has been drawn: they must not have changed
						stable := crashes[k][i] || deepVal(raws[k][i]) == posts[k][i]
						rec.Emit("shared", F{"key": fmt.Sprintf("r%d/k%d/i%d", round, k, i), "draws": results[k][i], "crashed": crashes[k][i], "stable": stable})
					}
				}
			}()
		}
		rec.Emit("scen.end", F{"id": sc.ID})
	}
}

func init() {
	modes["shared"] = sharedMode
}

var freshCounter atomic.Int64

// freshen replaces %FRESH% in a regexp by a large character class never used before in this process,
// so that its (cached) expansion happens at first use.
func freshen(s *GenSpec) *GenSpec {
	if s == nil || !strings.Contains(s.Expr, "%FRESH%") {
		return s
	}
	c := *s
	base := 0x10000 + int(freshCounter.Add(1))*3
	c.Expr = strings.ReplaceAll(s.Expr, "%FRESH%", fmt.Sprintf(`[\x{%x}-\x{%x}]`, base, base+0x3ffff))
	return &c
}
