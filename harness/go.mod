module verifharness

go 1.22

require pgregory.net/rapid v0.0.0

replace pgregory.net/rapid => /repo
