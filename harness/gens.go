package harness

// Generator catalogue: every public constructor of rapid, built from a JSON
// description, wrapped with AsAny so that expressions can be nested freely,
// together with a contract evaluator that turns a drawn value into the fields
// the specification checks (bounds as limbs, lengths, key digests, carried
// predicates).

import (
	"fmt"
	"math"
	"reflect"
	"regexp"
	"sort"
	"strconv"
	"strings"
	"sync"
	"unicode"
	"unicode/utf8"

	"pgregory.net/rapid"
)

type GenSpec struct {
	K        string     `json:"k"`
	Min      string     `json:"min,omitempty"`
	Max      string     `json:"max,omitempty"`
	MinLen   *int       `json:"minLen,omitempty"`
	MaxLen   *int       `json:"maxLen,omitempty"`
	MaxBytes *int       `json:"maxBytes,omitempty"`
	Elem     *GenSpec   `json:"elem,omitempty"`
	Key      *GenSpec   `json:"key,omitempty"`
	Val      *GenSpec   `json:"val,omitempty"`
	Gens     []*GenSpec `json:"gens,omitempty"`
	Pred     string     `json:"pred,omitempty"`
	Fn       string     `json:"fn,omitempty"`
	Expr     string     `json:"expr,omitempty"`
	Items    []string   `json:"items,omitempty"`
	AllowNil bool       `json:"allowNil,omitempty"`
	Body     []Op       `json:"body,omitempty"`
	Type     string     `json:"type,omitempty"`
	Fresh    bool       `json:"fresh,omitempty"` // build anew for every draw (otherwise cached per scenario)
}

type Built struct {
	G     *rapid.Generator[any]
	Check func(v any) F // contract fields of a drawn value
	Desc  string
	// Derive (optional) builds the k-th generator derived from the typed generator behind G (one more combinator method applied to it)
	Derive func(k int) *rapid.Generator[any]
}

type AnyG = *rapid.Generator[any]

type signedInt interface {
	~int | ~int8 | ~int16 | ~int32 | ~int64
}
type unsignedInt interface {
	~uint | ~uint8 | ~uint16 | ~uint32 | ~uint64 | ~uintptr
}

type intKindInfo struct {
	signed bool
	smin   int64
	smax   int64
	umax   uint64
	mkS    func(variant string, min, max int64) AnyG
	mkU    func(variant string, min, max uint64) AnyG
}

func mkSigned[I signedInt](full func() *rapid.Generator[I], mn func(I) *rapid.Generator[I], mx func(I) *rapid.Generator[I], rg func(I, I) *rapid.Generator[I]) func(string, int64, int64) AnyG {
	return func(variant string, min, max int64) AnyG {
		switch variant {
		case "":
			return full().AsAny()
		case "Min":
			return mn(I(min)).AsAny()
		case "Max":
			return mx(I(max)).AsAny()
		default:
			return rg(I(min), I(max)).AsAny()
		}
	}
}

func mkUnsigned[I unsignedInt](full func() *rapid.Generator[I], mn func(I) *rapid.Generator[I], mx func(I) *rapid.Generator[I], rg func(I, I) *rapid.Generator[I]) func(string, uint64, uint64) AnyG {
	return func(variant string, min, max uint64) AnyG {
		switch variant {
		case "":
			return full().AsAny()
		case "Min":
			return mn(I(min)).AsAny()
		case "Max":
			return mx(I(max)).AsAny()
		default:
			return rg(I(min), I(max)).AsAny()
		}
	}
}

var IntKinds = map[string]intKindInfo{
	"Int":     {signed: true, smin: math.MinInt, smax: math.MaxInt, mkS: mkSigned(rapid.Int, rapid.IntMin, rapid.IntMax, rapid.IntRange)},
	"Int8":    {signed: true, smin: math.MinInt8, smax: math.MaxInt8, mkS: mkSigned(rapid.Int8, rapid.Int8Min, rapid.Int8Max, rapid.Int8Range)},
	"Int16":   {signed: true, smin: math.MinInt16, smax: math.MaxInt16, mkS: mkSigned(rapid.Int16, rapid.Int16Min, rapid.Int16Max, rapid.Int16Range)},
	"Int32":   {signed: true, smin: math.MinInt32, smax: math.MaxInt32, mkS: mkSigned(rapid.Int32, rapid.Int32Min, rapid.Int32Max, rapid.Int32Range)},
	"Int64":   {signed: true, smin: math.MinInt64, smax: math.MaxInt64, mkS: mkSigned(rapid.Int64, rapid.Int64Min, rapid.Int64Max, rapid.Int64Range)},
	"Byte":    {umax: math.MaxUint8, mkU: mkUnsigned(rapid.Byte, rapid.ByteMin, rapid.ByteMax, rapid.ByteRange)},
	"Uint":    {umax: math.MaxUint, mkU: mkUnsigned(rapid.Uint, rapid.UintMin, rapid.UintMax, rapid.UintRange)},
	"Uint8":   {umax: math.MaxUint8, mkU: mkUnsigned(rapid.Uint8, rapid.Uint8Min, rapid.Uint8Max, rapid.Uint8Range)},
	"Uint16":  {umax: math.MaxUint16, mkU: mkUnsigned(rapid.Uint16, rapid.Uint16Min, rapid.Uint16Max, rapid.Uint16Range)},
	"Uint32":  {umax: math.MaxUint32, mkU: mkUnsigned(rapid.Uint32, rapid.Uint32Min, rapid.Uint32Max, rapid.Uint32Range)},
	"Uint64":  {umax: math.MaxUint64, mkU: mkUnsigned(rapid.Uint64, rapid.Uint64Min, rapid.Uint64Max, rapid.Uint64Range)},
	"Uintptr": {umax: math.MaxUint64, mkU: mkUnsigned(rapid.Uintptr, rapid.UintptrMin, rapid.UintptrMax, rapid.UintptrRange)},
}

func splitIntKind(k string) (base, variant string, ok bool) {
	for _, v := range []string{"Range", "Min", "Max", ""} {
		if strings.HasSuffix(k, v) {
			b := strings.TrimSuffix(k, v)
			if _, ok := IntKinds[b]; ok {
				return b, v, true
			}
		}
	}
	return "", "", false
}

// AsInt64 / AsUint64 read an integer of any kind through reflection.
func AsInt64(v any) (int64, bool) {
	rv := reflect.ValueOf(v)
	switch rv.Kind() {
	case reflect.Int, reflect.Int8, reflect.Int16, reflect.Int32, reflect.Int64:
		return rv.Int(), true
	}
	return 0, false
}
func AsUint64(v any) (uint64, bool) {
	rv := reflect.ValueOf(v)
	switch rv.Kind() {
	case reflect.Uint, reflect.Uint8, reflect.Uint16, reflect.Uint32, reflect.Uint64, reflect.Uintptr:
		return rv.Uint(), true
	}
	return 0, false
}

func optInt(p *int, def int) int {
	if p == nil {
		return def
	}
	return *p
}

var preds = map[string]func(any) bool{
	"even": func(v any) bool {
		if i, ok := AsInt64(v); ok {
			return i%2 == 0
		}
		u, _ := AsUint64(v)
		return u%2 == 0
	},
	"nonzero": func(v any) bool {
		if i, ok := AsInt64(v); ok {
			return i != 0
		}
		u, _ := AsUint64(v)
		return u != 0
	},
	"never":    func(v any) bool { return false },
	"always":   func(v any) bool { return true },
	"nonempty": func(v any) bool { return reflect.ValueOf(v).Len() > 0 },
	"mod3": func(v any) bool {
		if i, ok := AsInt64(v); ok {
			return i%3 == 0
		}
		u, _ := AsUint64(v)
		return u%3 == 0
	},
	"boom": func(v any) bool { // a predicate with a bug: it panics for one value in five
		if i, ok := AsInt64(v); ok && i%5 == 4 {
			panic(fmt.Sprintf("predicate cannot handle %d", i%5))
		}
		return true
	},
	"rare": func(v any) bool { // passes for 1 value in 7: a Filter that often runs out of tries
		if i, ok := AsInt64(v); ok {
			return i%7 == 3
		}
		u, _ := AsUint64(v)
		return u%7 == 3
	},
	"ascii": func(v any) bool {
		s, _ := v.(string)
		for _, r := range s {
			if r > 127 {
				return false
			}
		}
		return true
	},
}

func keyOf(v any) any {
	userCallback()
	// comparable key of an arbitrary drawn value
	rv := reflect.ValueOf(v)
	if !rv.IsValid() {
		return "<nil>"
	}
	if rv.Type().Comparable() {
		switch rv.Kind() {
		case reflect.Float32, reflect.Float64, reflect.Interface, reflect.Struct, reflect.Array, reflect.Pointer:
			return fmt.Sprintf("%#v", v)
		}
		return v
	}
	return fmt.Sprintf("%#v", v)
}

type GenEnv struct {
	cache map[*GenSpec]*Built
	run   *Runner
}

var buildMu sync.Mutex

func (e *GenEnv) buildLocked(s *GenSpec) *Built {
	if s == nil {
		panic("nil generator spec")
	}
	if !s.Fresh {
		if b, ok := e.cache[s]; ok {
			return b
		}
	}
	b := e.build(s)
	if !s.Fresh {
		e.cache[s] = b
	}
	return b
}

func (e *GenEnv) Build(s *GenSpec) *Built {
	if s == nil {
		panic("nil generator spec")
	}
	buildMu.Lock()
	defer buildMu.Unlock()
	return e.buildLocked(s)
}

func fmtVal(v any) string { return Digest(fmt.Sprintf("%#v", v)) }

// deepVal is the address-free text of a value (pointers are followed)
func deepVal(v any) string { return Digest(deepFmt(reflect.ValueOf(v))) }

// deepFmt formats like %#v but follows pointers instead of printing addresses, so that
// equal values have equal texts from run to run.
func deepFmt(v reflect.Value) string {
	if !v.IsValid() {
		return "nil"
	}
	switch v.Kind() {
	case reflect.Pointer:
		if v.IsNil() {
			return "nil"
		}
		return "&" + deepFmt(v.Elem())
	case reflect.Interface:
		if v.IsNil() {
			return "nil"
		}
		return deepFmt(v.Elem())
	case reflect.Slice, reflect.Array:
		if v.Kind() == reflect.Slice && v.IsNil() {
			return v.Type().String() + "(nil)"
		}
		parts := make([]string, v.Len())
		for i := range parts {
			parts[i] = deepFmt(v.Index(i))
		}
		return v.Type().String() + "{" + strings.Join(parts, ", ") + "}"
	case reflect.Map:
		parts := make([]string, 0, v.Len())
		it := v.MapRange()
		for it.Next() {
			parts = append(parts, deepFmt(it.Key())+":"+deepFmt(it.Value()))
		}
		sort.Strings(parts)
		return v.Type().String() + "{" + strings.Join(parts, ", ") + "}"
	case reflect.Struct:
		parts := make([]string, v.NumField())
		for i := range parts {
			parts[i] = v.Type().Field(i).Name + ":" + deepFmt(v.Field(i))
		}
		return v.Type().String() + "{" + strings.Join(parts, ", ") + "}"
	}
	if v.CanInterface() {
		return fmt.Sprintf("%#v", v.Interface())
	}
	return fmt.Sprintf("%#v", v)
}

func (e *GenEnv) build(s *GenSpec) *Built {
	// (called with buildMu held; nested builds go through buildLocked)
	if base, variant, ok := splitIntKind(s.K); ok {
		ki := IntKinds[base]
		if ki.signed {
			min, max := ki.smin, ki.smax
			if variant == "Min" || variant == "Range" {
				min, _ = strconv.ParseInt(s.Min, 10, 64)
			}
			if variant == "Max" || variant == "Range" {
				max, _ = strconv.ParseInt(s.Max, 10, 64)
			}
			return &Built{G: ki.mkS(variant, min, max), Desc: s.K, Check: func(v any) F {
				i, ok := AsInt64(v)
				return F{"c": "int", "typeok": ok, "v": WI(i), "min": WI(min), "max": WI(max)}
			}}
		}
		min, max := uint64(0), ki.umax
		if variant == "Min" || variant == "Range" {
			min, _ = strconv.ParseUint(s.Min, 10, 64)
		}
		if variant == "Max" || variant == "Range" {
			max, _ = strconv.ParseUint(s.Max, 10, 64)
		}
		return &Built{G: ki.mkU(variant, min, max), Desc: s.K, Check: func(v any) F {
			u, ok := AsUint64(v)
			return F{"c": "int", "typeok": ok, "v": W(u), "min": W(min), "max": W(max)}
		}}
	}

	switch s.K {
	case "Bool":
		return &Built{G: rapid.Bool().AsAny(), Desc: s.K, Check: func(v any) F { _, ok := v.(bool); return F{"c": "pred", "ok": ok} }}
	case "Float64", "Float64Min", "Float64Max", "Float64Range", "Float32", "Float32Min", "Float32Max", "Float32Range":
		is32 := strings.HasPrefix(s.K, "Float32")
		lim := math.MaxFloat64
		if is32 {
			lim = math.MaxFloat32
		}
		min, max := -lim, lim
		if strings.HasSuffix(s.K, "Min") || strings.HasSuffix(s.K, "Range") {
			min = parseFloat(s.Min)
		}
		if strings.HasSuffix(s.K, "Max") || strings.HasSuffix(s.K, "Range") {
			max = parseFloat(s.Max)
		}
		var g AnyG
		switch s.K {
		case "Float64":
			g = rapid.Float64().AsAny()
		case "Float64Min":
			g = rapid.Float64Min(min).AsAny()
		case "Float64Max":
			g = rapid.Float64Max(max).AsAny()
		case "Float64Range":
			g = rapid.Float64Range(min, max).AsAny()
		case "Float32":
			g = rapid.Float32().AsAny()
		case "Float32Min":
			g = rapid.Float32Min(float32(min)).AsAny()
		case "Float32Max":
			g = rapid.Float32Max(float32(max)).AsAny()
		case "Float32Range":
			g = rapid.Float32Range(float32(min), float32(max)).AsAny()
		}
		if is32 {
			min, max = float64(float32(min)), float64(float32(max))
		}
		return &Built{G: g, Desc: s.K, Check: func(v any) F {
			var x float64
			ok := false
			if is32 {
				var y float32
				y, ok = v.(float32)
				x = float64(y)
			} else {
				x, ok = v.(float64)
			}
			return F{"c": "float", "typeok": ok, "v": WF(x), "min": WF(min), "max": WF(max)}
		}}
	case "Rune":
		return &Built{G: rapid.Rune().AsAny(), Desc: s.K, Check: func(v any) F {
			r, ok := v.(rune)
			return F{"c": "pred", "ok": ok && utf8.ValidRune(r)}
		}}
	case "RuneFrom":
		runes := []rune(s.Expr)
		var tables []*unicode.RangeTable
		for _, it := range s.Items {
			tables = append(tables, unicode.Categories[it])
		}
		return &Built{G: rapid.RuneFrom(runes, tables...).AsAny(), Desc: s.K, Check: func(v any) F {
			r, ok := v.(rune)
			in := false
			for _, x := range runes {
				in = in || x == r
			}
			for _, tb := range tables {
				in = in || unicode.Is(tb, r)
			}
			return F{"c": "pred", "ok": ok && in}
		}}
	case "RuneSampled": // a rune generator over a few given code points, which may include values that are not valid runes (surrogates)
		rs := make([]rune, len(s.Items))
		for i, x := range s.Items {
			n, _ := strconv.ParseInt(x, 0, 32)
			rs[i] = rune(n)
		}
		return &Built{G: rapid.SampledFrom(rs).AsAny(), Desc: s.K, Check: func(v any) F {
			r, ok := v.(rune)
			in := false
			for _, x := range rs {
				in = in || x == r
			}
			return F{"c": "pred", "ok": ok && in}
		}}
	case "String", "StringN", "StringOf", "StringOfN":
		minR, maxR, maxB := optInt(s.MinLen, -1), optInt(s.MaxLen, -1), optInt(s.MaxBytes, -1)
		var g AnyG
		var elem *Built
		switch s.K {
		case "String":
			g = rapid.String().AsAny()
		case "StringN":
			g = rapid.StringN(minR, maxR, maxB).AsAny()
		case "StringOf", "StringOfN":
			elem = e.buildLocked(s.Elem)
			rg := rapid.Map(elem.G, func(v any) rune { return v.(rune) })
			if s.K == "StringOf" {
				g = rapid.StringOf(rg).AsAny()
			} else {
				g = rapid.StringOfN(rg, minR, maxR, maxB).AsAny()
			}
		}
		return &Built{G: g, Desc: s.K, Check: func(v any) F {
			str, ok := v.(string)
			f := F{"c": "str", "typeok": ok, "runes": utf8.RuneCountInString(str), "bytes": len(str), "minRunes": minR, "maxRunes": maxR, "maxBytes": maxB, "utf8": utf8.ValidString(str)}
			elemok := true
			if elem != nil {
				for _, r := range str {
					ef := elem.Check(r)
					if b, ok := ef["ok"].(bool); ok && !b {
						elemok = false
					}
				}
			}
			f["elemok"] = elemok
			return f
		}}
	case "StringMatching", "SliceOfBytesMatching":
		re := regexp.MustCompile(s.Expr)
		if s.K == "StringMatching" {
			return &Built{G: rapid.StringMatching(s.Expr).AsAny(), Desc: s.K, Check: func(v any) F {
				str, ok := v.(string)
				return F{"c": "pred", "ok": ok && re.MatchString(str)}
			}}
		}
		return &Built{G: rapid.SliceOfBytesMatching(s.Expr).AsAny(), Desc: s.K, Check: func(v any) F {
			b, ok := v.([]byte)
			return F{"c": "pred", "ok": ok && re.Match(b)}
		}}
	case "SliceOf", "SliceOfN", "SliceOfDistinct", "SliceOfNDistinct":
		elem := e.buildLocked(s.Elem)
		minL, maxL := optInt(s.MinLen, -1), optInt(s.MaxLen, -1)
		if s.K == "SliceOf" || s.K == "SliceOfDistinct" {
			minL, maxL = -1, -1
		}
		distinct := strings.HasSuffix(s.K, "Distinct")
		var g *rapid.Generator[[]any]
		switch s.K {
		case "SliceOf":
			g = rapid.SliceOf(elem.G)
		case "SliceOfN":
			g = rapid.SliceOfN(elem.G, minL, maxL)
		case "SliceOfDistinct":
			g = rapid.SliceOfDistinct(elem.G, keyOf)
		case "SliceOfNDistinct":
			g = rapid.SliceOfNDistinct(elem.G, minL, maxL, keyOf)
		}
		return &Built{G: g.AsAny(), Desc: s.K, Check: func(v any) F {
			sl, ok := v.([]any)
			keys := make([]string, len(sl))
			elemok := true
			for i, x := range sl {
				keys[i] = fmtVal(keyOf(x))
				elemok = elemok && contractOK(elem.Check(x))
			}
			allzero := true
			for _, x := range sl {
				rv := reflect.ValueOf(x)
				allzero = allzero && rv.IsValid() && rv.IsZero()
			}
			return F{"c": "coll", "typeok": ok, "len": len(sl), "minLen": minL, "maxLen": maxL, "distinct": distinct, "keys": keys, "elemok": elemok, "allzero": allzero}
		}}
	case "MapOf", "MapOfN", "MapOfValues", "MapOfNValues":
		val := e.buildLocked(s.Val)
		minL, maxL := optInt(s.MinLen, -1), optInt(s.MaxLen, -1)
		if s.K == "MapOf" || s.K == "MapOfValues" {
			minL, maxL = -1, -1
		}
		var g *rapid.Generator[map[any]any]
		var key *Built
		switch s.K {
		case "MapOf":
			key = e.buildLocked(s.Key)
			g = rapid.MapOf(rapid.Map(key.G, keyOf), val.G)
		case "MapOfN":
			key = e.buildLocked(s.Key)
			g = rapid.MapOfN(rapid.Map(key.G, keyOf), val.G, minL, maxL)
		case "MapOfValues":
			g = rapid.MapOfValues(val.G, keyOf)
		case "MapOfNValues":
			g = rapid.MapOfNValues(val.G, minL, maxL, keyOf)
		}
		return &Built{G: g.AsAny(), Desc: s.K, Check: func(v any) F {
			m, ok := v.(map[any]any)
			keys := make([]string, 0, len(m))
			elemok := true
			for k, x := range m {
				keys = append(keys, fmtVal(k))
				elemok = elemok && contractOK(val.Check(x))
				if key == nil && keyOf(x) != k {
					elemok = false
				}
			}
			sort.Strings(keys)
			return F{"c": "coll", "typeok": ok, "len": len(m), "minLen": minL, "maxLen": maxL, "distinct": true, "keys": keys, "elemok": elemok, "allzero": false}
		}}
	case "Just":
		it := parseItem(s.Items[0])
		return &Built{G: rapid.Just(it).AsAny(), Desc: s.K, Check: func(v any) F { return F{"c": "pred", "ok": v == it} }}
	case "SampledFrom":
		items := make([]any, len(s.Items))
		for i, x := range s.Items {
			items[i] = parseItem(x)
		}
		return &Built{G: rapid.SampledFrom(items), Desc: s.K, Check: func(v any) F {
			in := false
			for _, x := range items {
				in = in || x == v
			}
			return F{"c": "pred", "ok": in}
		}}
	case "Permutation":
		items := make([]any, len(s.Items))
		for i, x := range s.Items {
			items[i] = parseItem(x)
		}
		orig := append([]any{}, items...)
		return &Built{G: rapid.Permutation(items).AsAny(), Desc: s.K, Check: func(v any) F {
			p, ok := v.([]any)
			return F{"c": "perm", "typeok": ok, "got": strs(p), "want": strs(orig), "input": strs(items)}
		}}
	case "OneOf":
		subs := make([]*Built, len(s.Gens))
		gs := make([]AnyG, len(s.Gens))
		for i, x := range s.Gens {
			subs[i] = e.buildLocked(x)
			gs[i] = subs[i].G
		}
		return &Built{G: rapid.OneOf(gs...), Desc: s.K, Check: func(v any) F {
			any_ := false
			for _, sb := range subs {
				any_ = any_ || contractOK(sb.Check(v))
			}
			return F{"c": "pred", "ok": any_}
		}}
	case "Ptr":
		elem := e.buildLocked(s.Elem)
		return &Built{G: rapid.Ptr(elem.G, s.AllowNil).AsAny(), Desc: s.K, Check: func(v any) F {
			p, ok := v.(*any)
			if !ok {
				return F{"c": "pred", "ok": false}
			}
			if p == nil {
				return F{"c": "pred", "ok": s.AllowNil}
			}
			return F{"c": "pred", "ok": contractOK(elem.Check(*p))}
		}}
	case "Filter":
		elem := e.buildLocked(s.Elem)
		pred0 := preds[s.Pred]
		pred := func(v any) bool { userCallback(); return pred0(v) }
		if s.Pred == "boom" { // a predicate that panics for some values: record the signal before raising it (the panic falsifies the test case)
			run := e.run
			pred = func(v any) bool {
				if i, ok := AsInt64(v); ok && i%5 == 4 {
					msg := fmt.Sprintf("predicate cannot handle %d", i%5)
					if run != nil {
						run.rec.Emit("call", F{"inv": run.curTop, "m": "panic", "site": 8, "msg": Digest(msg), "g": 0})
					}
					panic(msg)
				}
				return true
			}
		}
		return &Built{G: elem.G.Filter(pred), Desc: s.K, Check: func(v any) F {
			f := elem.Check(v)
			f["filterok"] = pred(v)
			return f
		}}
	case "RecTree": // a recursive generator: the SAME distinct-slice generator object is entered again while it produces one of its own elements
		type tree struct {
			ID   int
			Kids []any
		}
		var node *rapid.Generator[any]
		kids := rapid.SliceOfNDistinct(rapid.Deferred(func() *rapid.Generator[any] { return node }), 0, 4, func(v any) int { return v.(tree).ID })
		node = rapid.Custom(func(t *rapid.T) any {
			userCallback()
			id := rapid.IntRange(0, 5).Draw(t, "id")
			if rapid.IntRange(0, 2).Draw(t, "leaf") != 0 {
				return tree{ID: id}
			}
			return tree{ID: id, Kids: kids.Draw(t, "kids")}
		})
		var distinct func(v any) bool
		distinct = func(v any) bool {
			tr, ok := v.(tree)
			if !ok {
				return false
			}
			seen := map[int]bool{}
			for _, k := range tr.Kids {
				kt, ok := k.(tree)
				if !ok || seen[kt.ID] || !distinct(k) {
					return false
				}
				seen[kt.ID] = true
			}
			return len(tr.Kids) <= 4
		}
		return &Built{G: node, Desc: s.K, Check: func(v any) F { return F{"c": "pred", "ok": distinct(v)} }}
	case "FilterSiblings": // two generators derived (one more Filter each) from one chain of MinLen filters: the first must keep ITS predicate
		base := rapid.IntRange(0, 100000)
		for j := 0; j < optInt(s.MinLen, 0); j++ {
			m := 2*j + 3
			r := j
			base = base.Filter(func(v int) bool { return v%m != r })
		}
		first := base.Filter(func(v int) bool { return v%2 == 0 })
		_ = base.Filter(func(v int) bool { return v%2 == 1 }) // the sibling, derived afterwards
		return &Built{G: first.AsAny(), Desc: s.K, Check: func(v any) F {
			i, ok := v.(int)
			return F{"c": "pred", "ok": ok && i%2 == 0}
		}}
	case "MapSampled": // Map over SampledFrom with a function that makes a new value every time: every draw gets its own
		gm := rapid.Map(rapid.SampledFrom([]int{1, 2, 3}), func(i int) []any { userCallback(); return []any{i, i + 10} })
		return &Built{G: gm.AsAny(), Desc: s.K, Check: func(v any) F {
			p, ok := v.([]any)
			good := ok && len(p) == 2
			if good {
				a, _ := p[0].(int)
				b, _ := p[1].(int)
				good = a >= 1 && a <= 3 && b == a+10
			}
			return F{"c": "pred", "ok": good}
		}}
	case "FilterChain": // IntRange(0, 100000) with MinLen Filter calls chained on the typed generator; Derive(k) chains one more, different for every k
		base := rapid.IntRange(0, 100000)
		for j := 0; j < optInt(s.MinLen, 0); j++ {
			m := 2*j + 3 // v%3 != 0, v%5 != 1, v%7 != 2, ...
			r := j
			base = base.Filter(func(v int) bool { userCallback(); return v%m != r })
		}
		return &Built{G: base.AsAny(), Desc: s.K, Check: func(v any) F { return F{"c": "pred", "ok": true} },
			Derive: func(k int) *rapid.Generator[any] {
				return base.Filter(func(v int) bool { return v%(k+2) != 1 }).AsAny()
			}}
	case "Map":
		elem := e.buildLocked(s.Elem)
		return &Built{G: rapid.Map(elem.G, func(v any) any { userCallback(); return v }), Desc: s.K, Check: elem.Check}
	case "Deferred":
		elem := s.Elem
		var inner *Built
		return &Built{G: rapid.Deferred(func() AnyG { inner = e.Build(elem); return inner.G }), Desc: s.K, Check: func(v any) F {
			if inner == nil {
				return F{"c": "pred", "ok": false}
			}
			return inner.Check(v)
		}}
	case "Custom":
		ret := e.buildLocked(s.Elem)
		body := s.Body
		return &Built{G: rapid.Custom(func(t *rapid.T) any {
			userCallback()
			return e.run.customBody(t, body, ret)
		}), Desc: s.K, Check: ret.Check}
	case "CustomShared":
		name := s.Fn
		return &Built{G: rapid.Custom(func(t *rapid.T) any { return e.run.customShared(t, name) }), Desc: s.K, Check: func(v any) F { return F{"c": "pred", "ok": true} }}
	case "Make":
		return buildMake(s.Type)
	}
	panic("unknown generator kind " + s.K)
}

func contractOK(f F) bool {
	// harness-side evaluation, used only for nested element contracts
	for _, k := range []string{"ok", "typeok", "elemok", "utf8", "filterok"} {
		if b, ok := f[k].(bool); ok && !b {
			return false
		}
	}
	if f["c"] == "int" || f["c"] == "float" {
		return leW(f["min"].(F), f["v"].(F)) && leW(f["v"].(F), f["max"].(F)) && f["v"].(F)["class"] != "nan"
	}
	if f["c"] == "coll" {
		n := f["len"].(int)
		if mn := f["minLen"].(int); mn >= 0 && n < mn {
			return false
		}
		if mx := f["maxLen"].(int); mx >= 0 && n > mx {
			return false
		}
	}
	return true
}

func leW(a, b F) bool {
	la, lb := a["l"].([]int), b["l"].([]int)
	for i := 0; i < 4; i++ {
		if la[i] != lb[i] {
			return la[i] < lb[i]
		}
	}
	return true
}

func strs(xs []any) []string {
	out := make([]string, len(xs))
	for i, x := range xs {
		out[i] = fmtVal(x)
	}
	return out
}

func parseItem(s string) any {
	if i, err := strconv.Atoi(s); err == nil {
		return i
	}
	return s
}

func parseFloat(s string) float64 {
	switch s {
	case "inf", "+inf":
		return math.Inf(1)
	case "-inf":
		return math.Inf(-1)
	case "maxf64":
		return math.MaxFloat64
	case "-maxf64":
		return -math.MaxFloat64
	case "minsub":
		return math.SmallestNonzeroFloat64
	case "-minsub":
		return -math.SmallestNonzeroFloat64
	case "-0":
		return math.Copysign(0, -1)
	}
	if strings.HasPrefix(s, "bits:") {
		u, _ := strconv.ParseUint(s[5:], 0, 64)
		return math.Float64frombits(u)
	}
	f, err := strconv.ParseFloat(s, 64)
	if err != nil {
		panic(err)
	}
	return f
}

// Make: a fixed set of types, each with its expected dynamic type.
type mkStruct struct {
	A int8
	B []uint16
	C map[string]bool
	D *float32
	E [2]byte
}
type mkNamed int32
type mkStr string

func mkOf[V any]() *Built {
	var zero V
	want := reflect.TypeOf(zero)
	return &Built{G: rapid.Make[V]().AsAny(), Desc: "Make", Check: func(v any) F {
		return F{"c": "pred", "ok": reflect.TypeOf(v) == want}
	}}
}

func buildMake(typ string) *Built {
	switch typ {
	case "int":
		return mkOf[int]()
	case "struct":
		return mkOf[mkStruct]()
	case "named":
		return mkOf[mkNamed]()
	case "namedstr":
		return mkOf[mkStr]()
	case "slice":
		return mkOf[[]mkNamed]()
	case "map":
		return mkOf[map[mkStr][]int8]()
	case "ptr":
		return mkOf[**uint8]()
	case "array":
		return mkOf[[3]float64]()
	case "bool":
		return mkOf[bool]()
	case "mapboolint":
		return mkOf[map[bool]int]()
	case "mapbyteint":
		return mkOf[map[int8]int16]()
	case "emptystruct":
		return mkOf[struct{}]()
	case "set":
		return mkOf[map[int8]struct{}]()
	case "sliceempty":
		return mkOf[[]struct{}]()
	case "marker":
		return mkOf[struct {
			A uint8
			M struct{}
		}]()
	case "emptyarray":
		return mkOf[[0]int]()
	case "floats":
		return mkOf[[]float32]()
	case "uintptr":
		return mkOf[uintptr]()
	case "string":
		return mkOf[string]()
	case "local1":
		return mkLocal1()
	case "local2":
		return mkLocal2()
	case "tree":
		return mkOf[*mkTree]()
	case "nestedptr":
		return mkOf[mkNested]()
	case "nested0":
		return mkOf[mkNG[int8]]()
	case "nested1":
		return mkOf[mkNG[int16]]()
	case "nested2":
		return mkOf[mkNG[int32]]()
	case "nested3":
		return mkOf[mkNG[int64]]()
	case "nested4":
		return mkOf[mkNG[uint8]]()
	case "nested5":
		return mkOf[mkNG[uint16]]()
	case "nested6":
		return mkOf[mkNG[uint32]]()
	case "nested7":
		return mkOf[mkNG[uint64]]()
	case "nested8":
		return mkOf[mkNG[string]]()
	case "nested9":
		return mkOf[mkNG[bool]]()
	case "nested10":
		return mkOf[mkNG[float32]]()
	case "nested11":
		return mkOf[mkNG[float64]]()
	}
	panic("unknown Make type " + typ)
}

// two distinct types with the same name (declared in different function scopes): reflect.Type.String() is the same for both
func mkLocal1() *Built {
	type id uint8
	type rec struct {
		ID   id
		Tags []id
		M    map[id]bool
	}
	return mkOf[rec]()
}

func mkLocal2() *Built {
	type id string
	type rec struct {
		M    map[id]int8
		ID   id
		Tags [2]id
	}
	return mkOf[rec]()
}

type mkTree struct { // (one recursive field only: with two, the expected size of a value is unbounded)
	V    int8
	Next *mkTree
	Tags []bool
}

// a family of distinct types with pointers nested under pointers: whatever rapid.Make sets up lazily per type happens once per process and type
type mkNG[T any] struct {
	A *struct{ X *T }
	B *struct{ Y *T }
	C **struct{ Z *T }
	D *[]*T
	E *map[int8]*T
}

type mkNested struct {
	A *struct{ X *int8 }
	B *struct{ Y *string }
	C **struct{ Z *uint16 }
}
