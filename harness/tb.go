package harness

// RecTB is a recording implementation of rapid.TB.  FailNow ends the goroutine
// that runs the check with runtime.Goexit, like testing.T does.  Messages that
// rapid sends are parsed into fields (class, counts, seed, fail file, message),
// because TLC does no string processing; unknown texts are passed through with
// class "other".

import (
	"fmt"
	"regexp"
	"runtime"
	"strconv"
	"strings"
	"sync"
)

type RecTB struct {
	mu       sync.Mutex
	name     string
	failed   bool
	failNow  bool
	skipped  bool
	Errors   []string
	Logs     []string
	rec      *Recorder
	afterFin bool
}

func NewRecTB(name string, rec *Recorder) *RecTB { return &RecTB{name: name, rec: rec} }

var (
	reOK       = regexp.MustCompile(`^\[rapid\] OK, passed (\d+) tests \(`)
	reOnlyGen  = regexp.MustCompile(`^\[rapid\] only generated (\d+) valid tests from (\d+) total \(`)
	reFailed   = regexp.MustCompile(`(?s)^\[rapid\] (failed|panic) after (\d+) tests: (.*?)\nTo reproduce, specify -run="((?:[^"\\]|\\.)*)"(.*?)\n(Traceback:\n.*)?Failed test output:$`)
	reFlaky    = regexp.MustCompile(`(?s)^\[rapid\] flaky test, can not reproduce a failure\nTo try to reproduce, specify -run="((?:[^"\\]|\\.)*)"(.*?)\nTraceback \((.*?)\):\n`)
	reSeed     = regexp.MustCompile(`-rapid\.seed=(\d+)`)
	reFailfile = regexp.MustCompile(`-rapid\.failfile="((?:[^"\\]|\\.)*)"`)
	reDraw     = regexp.MustCompile(`(?s)^\[rapid\] draw (.*?): (.*)$`)
	reIgnore   = regexp.MustCompile(`(?s)^\[rapid\] (ignoring fail file: |fail file "((?:[^"\\]|\\.)*)" (is no longer valid|no longer fails))`)
	reTestHdr  = regexp.MustCompile(`^\[rapid\] test #(\d+) (start \(seed (\d+)\)|OK|invalid|failed)`)
)

func (r *RecTB) classify(kind string, s string) F {
	f := F{"via": kind, "text": Digest(s)}
	switch {
	case reOK.MatchString(s):
		m := reOK.FindStringSubmatch(s)
		f["class"] = "ok"
		f["valid"], _ = strconv.Atoi(m[1])
	case reOnlyGen.MatchString(s):
		m := reOnlyGen.FindStringSubmatch(s)
		f["class"] = "onlygen"
		f["valid"], _ = strconv.Atoi(m[1])
		f["total"], _ = strconv.Atoi(m[2])
	case reFailed.MatchString(s):
		m := reFailed.FindStringSubmatch(s)
		f["class"] = m[1]
		f["valid"], _ = strconv.Atoi(m[2])
		f["msg"] = Digest(m[3])
		f["run"] = m[4]
		parseRepr(f, m[5])
	case reFlaky.MatchString(s):
		m := reFlaky.FindStringSubmatch(s)
		f["class"] = "flaky"
		f["run"] = m[1]
		parseRepr(f, m[2])
	case reDraw.MatchString(s):
		m := reDraw.FindStringSubmatch(s)
		f["class"] = "draw"
		f["label"] = m[1]
		f["val"] = Digest(m[2])
		f["auto"] = -1
		if strings.HasPrefix(m[1], "#") {
			if n, err := strconv.Atoi(m[1][1:]); err == nil {
				f["auto"] = n
			}
		}
	case reIgnore.MatchString(s):
		f["class"] = "ffignore"
		f["names"] = s
	case reTestHdr.MatchString(s):
		m := reTestHdr.FindStringSubmatch(s)
		f["n"], _ = strconv.Atoi(m[1])
		if m[3] != "" {
			f["class"] = "teststart"
			u, _ := strconv.ParseUint(m[3], 10, 64)
			f["seedw"] = W(u)
		} else {
			f["class"] = "testend"
			f["res"] = strings.ToLower(m[2])
		}
	case strings.HasPrefix(s, "[rapid] trying to "):
		f["class"] = "trying"
	case strings.HasPrefix(s, "[rapid] "):
		f["class"] = "rapid-other"
	default:
		f["class"] = "user"
	}
	return f
}

func parseRepr(f F, repr string) {
	f["seed"] = ""
	f["seedw"] = W(0)
	f["failfile"] = ""
	if m := reSeed.FindStringSubmatch(repr); m != nil {
		f["seed"] = m[1]
		u, _ := strconv.ParseUint(m[1], 10, 64)
		f["seedw"] = W(u)
	}
	if m := reFailfile.FindStringSubmatch(repr); m != nil {
		if p, err := strconv.Unquote(`"` + m[1] + `"`); err == nil {
			f["failfile"] = p
		} else {
			f["failfile"] = m[1]
		}
	}
}

func (r *RecTB) log(kind string, s string) {
	r.mu.Lock()
	if kind == "errorf" {
		r.Errors = append(r.Errors, s)
		r.failed = true
	} else {
		r.Logs = append(r.Logs, s)
	}
	r.mu.Unlock()
	r.rec.Emit("tb."+kind, r.classify(kind, s))
}

func (r *RecTB) Helper()                   {}
func (r *RecTB) Name() string              { return r.name }
func (r *RecTB) Logf(f string, a ...any)   { r.log("logf", fmt.Sprintf(f, a...)) }
func (r *RecTB) Log(a ...any)              { r.log("logf", fmt.Sprint(a...)) }
func (r *RecTB) Errorf(f string, a ...any) { r.log("errorf", fmt.Sprintf(f, a...)) }
func (r *RecTB) Error(a ...any)            { r.log("errorf", fmt.Sprint(a...)) }
func (r *RecTB) Fatalf(f string, a ...any) { r.Errorf(f, a...); r.FailNow() }
func (r *RecTB) Fatal(a ...any)            { r.Error(a...); r.FailNow() }
func (r *RecTB) Skipf(f string, a ...any)  { r.Logf(f, a...); r.SkipNow() }
func (r *RecTB) Skip(a ...any)             { r.Log(a...); r.SkipNow() }
func (r *RecTB) SkipNow() {
	r.mu.Lock()
	r.skipped = true
	r.mu.Unlock()
	r.rec.Emit("tb.skipnow", F{})
	runtime.Goexit()
}
func (r *RecTB) FailNow() {
	r.mu.Lock()
	r.failed = true
	r.failNow = true
	r.mu.Unlock()
	r.rec.Emit("tb.failnow", F{})
	runtime.Goexit()
}
func (r *RecTB) Fail() {
	r.mu.Lock()
	r.failed = true
	r.mu.Unlock()
	r.rec.Emit("tb.fail", F{})
}
func (r *RecTB) Failed() bool {
	r.mu.Lock()
	defer r.mu.Unlock()
	return r.failed
}

// Run executes f (a call of rapid.Check with this TB) in its own goroutine and
// reports how it ended: "return", "goexit" (FailNow/SkipNow) or "panic".
func (r *RecTB) Run(f func()) (how string, panicVal any) {
	done := make(chan struct{})
	how = "goexit"
	go func() {
		defer close(done)
		defer func() {
			if p := recover(); p != nil {
				how, panicVal = "panic", p
			}
		}()
		f()
		how = "return"
	}()
	<-done
	return
}
