package harness

import (
	"bufio"
	"encoding/json"
	"flag"
	"os"
	"pgregory.net/rapid"
	"strings"
	"testing"
)

var (
	fIn      = flag.String("verif.in", "", "scenario file (ND-JSON, one scenario per line)")
	fOut     = flag.String("verif.out", "", "trace file (ND-JSON)")
	fEvents  = flag.String("verif.events", "", "comma separated list of event types to record (empty = all)")
	fMode    = flag.String("verif.mode", "scenarios", "driver mode")
	fWork    = flag.String("verif.work", "", "directory for scenario working directories (default: the system temp dir)")
	fInplace = flag.Bool("verif.inplace", false, "run scenarios in the current directory (spliced-in run of another process)")
	fHang    = flag.Duration("verif.hang", 0, "declare a hang after this long in one invocation (default 90s)")
	fChild   = flag.String("verif.child", "", "child specification (crash-point enumeration)")
)

func TestVerif(t *testing.T) {
	if *fIn == "" || *fOut == "" {
		t.Skip("no -verif.in/-verif.out")
	}
	var want []string
	if *fEvents != "" {
		want = strings.Split(*fEvents, ",")
	}
	rec, err := OpenRecorder(*fOut, want)
	if err != nil {
		t.Fatal(err)
	}
	Rec = rec
	InstallSink(rec, CaptureHook)
	if *fHang > 0 {
		HangAfter = *fHang
	}
	StartWatchdog(rec)
	rapid.VerifSetGate(GateFn)
	switch *fMode {
	case "scenarios":
		f, err := os.Open(*fIn)
		if err != nil {
			t.Fatal(err)
		}
		defer f.Close()
		sc := bufio.NewScanner(f)
		sc.Buffer(nil, 1<<30)
		n := 0
		for sc.Scan() {
			line := strings.TrimSpace(sc.Text())
			if line == "" {
				continue
			}
			var s Scenario
			if err := json.Unmarshal([]byte(line), &s); err != nil {
				t.Fatalf("scenario %d: %v", n+1, err)
			}
			RunScenario(t, rec, &s)
			n++
		}
		rec.Emit("harness.done", F{"scenarios": n})
	default:
		if fn, ok := modes[*fMode]; ok {
			fn(t, rec)
			rec.Emit("harness.done", F{})
		} else {
			t.Fatalf("unknown mode %s", *fMode)
		}
	}
	if err := rec.Close(); err != nil {
		t.Fatal(err)
	}
}

var modes = map[string]func(*testing.T, *Recorder){}

// TestVerifChild is the body of a child process of the crash-point enumeration.
func TestVerifChild(t *testing.T) {
	if *fChild == "" {
		t.Skip("not a child")
	}
	ChildMain(t, *fChild)
}
