package harness

import (
	"encoding/hex"
	"encoding/json"
	"flag"
	"fmt"
	"os"
	"os/exec"
	"path/filepath"
	"sort"
	"strconv"
	"strings"
	"sync"
	"sync/atomic"
	"testing"
	"time"
	"unicode"

	"pgregory.net/rapid"
)

type FileSpec struct {
	Path string `json:"path"`
	Hex  string `json:"hex,omitempty"`
	Text string `json:"text,omitempty"`
	Dir  bool   `json:"dir,omitempty"`
	Mode int    `json:"mode,omitempty"`
	Link string `json:"link,omitempty"` // a symbolic link to this target (which need not exist)
}

type RunSpec struct {
	Flags        map[string]string `json:"flags,omitempty"`
	CleanDir     bool              `json:"cleanDir,omitempty"`     // move to a fresh directory first
	FailfilePrev bool              `json:"failfilePrev,omitempty"` // -rapid.failfile=<file saved by the previous run> (absolute path)
	SeedPrev     bool              `json:"seedPrev,omitempty"`     // -rapid.seed=<seed printed by the previous run>
	Prop         *PropSpec         `json:"prop,omitempty"`
	Files        []FileSpec        `json:"files,omitempty"` // files created before this run
	Fuzz         []string          `json:"fuzz,omitempty"`  // hex inputs (entry fuzz): one sub-run per input
	Entry        string            `json:"entry,omitempty"`
	Warm         []string          `json:"warm,omitempty"`       // unrelated activity before the run (history independence)
	ExampleGen   *GenSpec          `json:"exampleGen,omitempty"` // entry "example": the generator whose Example(seed) is called
	ExampleN     int               `json:"exampleN,omitempty"`
	Expect       string            `json:"expect,omitempty"`       // relation to an earlier run the specification must check
	ExpectRun    int               `json:"expectRun,omitempty"`    // which earlier run (1-based; 0 = the previous one)
	ShadowPrev   string            `json:"shadowPrev,omitempty"`   // -rapid.failfile=<another directory>/<base name of the file saved by the previous run>, with this (unusable) content
	StashDir     string            `json:"stashDir,omitempty"`     // name of the stash directory (default "stash")
	StashPrev    bool              `json:"stashPrev,omitempty"`    // move the file saved by the previous run out of testdata (to ./stash) first
	FailfileRun  int               `json:"failfileRun,omitempty"`  // -rapid.failfile=<file saved by run k> (after stashing, its new place)
	FuzzFrom     []string          `json:"fuzzFrom,omitempty"`     // extra fuzz inputs: "recorded" / "pruned" words of the last recording made in an earlier run
	TruncPrev    []int             `json:"truncPrev,omitempty"`    // create fail files holding the first j words of the file saved by an earlier run
	FreshProc    bool              `json:"freshProc,omitempty"`    // execute this run in a new process (its events are spliced into the trace)
	FailfileFuzz int               `json:"failfileFuzz,omitempty"` // write a fail file holding the words of fuzz input j (decoded by the harness) and pass it with -rapid.failfile
}

type Scenario struct {
	ID    string            `json:"id"`
	Entry string            `json:"entry,omitempty"` // check (default), makecheck, fuzz
	Name  string            `json:"name,omitempty"`
	Flags map[string]string `json:"flags,omitempty"`
	Prop  PropSpec          `json:"prop"`
	Runs  []RunSpec         `json:"runs,omitempty"`
	Tag   map[string]any    `json:"tag,omitempty"` // scenario metadata copied into scen.begin (expectations computed by the generator of the scenario)
}

var flagDefaults = map[string]string{
	"rapid.checks": "100", "rapid.steps": "30", "rapid.failfile": "", "rapid.nofailfile": "false",
	"rapid.seed": "0", "rapid.log": "false", "rapid.v": "false", "rapid.debug": "false",
	"rapid.debugvis": "false", "rapid.shrinktime": "30s",
}

func setFlags(layers ...map[string]string) map[string]string {
	eff := map[string]string{}
	for k, v := range flagDefaults {
		eff[k] = v
	}
	for _, l := range layers {
		for k, v := range l {
			if !strings.HasPrefix(k, "rapid.") {
				k = "rapid." + k
			}
			eff[k] = v
		}
	}
	for k, v := range eff {
		if err := flag.Set(k, v); err != nil {
			panic(fmt.Sprintf("flag %s=%s: %v", k, v, err))
		}
	}
	return eff
}

// SafeName is the harness's own implementation of the documented fail-file
// naming rule: letters, digits, '-' and '_' are kept, everything else becomes '_',
// Windows reserved device names get a '_' appended.
func SafeName(name string) string {
	var b strings.Builder
	for _, r := range name {
		if unicode.IsLetter(r) || unicode.IsDigit(r) || r == '-' || r == '_' {
			b.WriteRune(r)
		} else {
			b.WriteByte('_')
		}
	}
	s := b.String()
	up := strings.ToUpper(s)
	for _, res := range []string{"CON", "PRN", "AUX", "NUL"} {
		if up == res {
			return s + "_"
		}
	}
	for _, p := range []string{"COM", "LPT"} {
		if strings.HasPrefix(up, p) {
			rest := up[3:]
			switch rest {
			case "0", "1", "2", "3", "4", "5", "6", "7", "8", "9", "¹", "²", "³":
				return s + "_"
			}
		}
	}
	return s
}

// ParseFailFile is the harness's own reader of the fail-file format.
func ParseFailFile(path string) F {
	f := F{"path": path, "ok": false}
	data, err := os.ReadFile(path)
	if err != nil {
		f["err"] = "read"
		return f
	}
	f["size"] = len(data)
	var lines []string
	ncomment, maxline := 0, 0
	for _, ln := range strings.Split(string(data), "\n") {
		if len(ln) > maxline {
			maxline = len(ln)
		}
		s := strings.TrimSpace(ln)
		if s == "" {
			continue
		}
		if strings.HasPrefix(s, "#") {
			ncomment++
			continue
		}
		lines = append(lines, s)
	}
	f["ncomment"], f["maxline"] = ncomment, maxline
	if len(lines) == 0 {
		f["err"] = "nodata"
		return f
	}
	parts := strings.Split(lines[0], "#")
	if len(parts) != 2 {
		f["err"] = "header"
		return f
	}
	seed, err := strconv.ParseUint(parts[1], 10, 64)
	if err != nil {
		f["err"] = "seed"
		return f
	}
	words := []uint64{}
	for _, w := range lines[1:] {
		u, err := strconv.ParseUint(w, 0, 64)
		if err != nil {
			f["err"] = "word"
			return f
		}
		words = append(words, u)
	}
	f["ok"], f["version"], f["seed"], f["buf"] = true, parts[0], W(seed), words
	return f
}

func snapshotFS(name string) []any {
	sname := SafeName(name)
	var out []any
	root := filepath.Join("testdata", "rapid")
	_ = filepath.Walk(root, func(p string, info os.FileInfo, err error) error {
		if err != nil || info.IsDir() {
			return nil
		}
		f := ParseFailFile(p)
		dir, base := filepath.Split(p)
		f["glob"] = filepath.Clean(dir) == filepath.Join(root, sname) && strings.HasPrefix(base, sname+"-") && strings.HasSuffix(base, ".fail")
		f["tmp"] = strings.HasPrefix(base, ".rapid-failfile-tmp-")
		if b, ok := f["buf"].([]uint64); ok {
			f["buf"] = conv(b)
		}
		out = append(out, f)
		return nil
	})
	sort.Slice(out, func(i, j int) bool { return out[i].(F)["path"].(string) < out[j].(F)["path"].(string) })
	return out
}

func writeFiles(files []FileSpec) {
	for _, fs := range files {
		if fs.Dir {
			_ = os.MkdirAll(fs.Path, 0o775)
			continue
		}
		_ = os.MkdirAll(filepath.Dir(fs.Path), 0o775)
		if fs.Link != "" {
			_ = os.Symlink(fs.Link, fs.Path)
			continue
		}
		data := []byte(fs.Text)
		if fs.Hex != "" {
			data, _ = hex.DecodeString(fs.Hex)
		}
		mode := os.FileMode(0o664)
		if fs.Mode != 0 {
			mode = os.FileMode(fs.Mode)
		}
		_ = os.WriteFile(fs.Path, data, mode)
	}
}

func seedSchedule(base uint64, n int) []uint64 {
	out := make([]uint64, n)
	s := base
	for i := 0; i < n; i++ {
		s += uint64(i)
		out[i] = s
	}
	return out
}

// RunScenario executes one scenario against the real library and records it.
func RunScenario(t *testing.T, rec *Recorder, sc *Scenario) {
	orig, _ := os.Getwd()
	dir := orig
	if !*fInplace { // (a spliced-in run of another process works in that process's scenario directory)
		var err error
		dir, err = os.MkdirTemp(*fWork, "verif-scen-")
		if err != nil {
			t.Fatal(err)
		}
		defer func() {
			_ = os.Chdir(orig)
			_ = os.RemoveAll(dir)
		}()
		_ = os.Chdir(dir)
	}
	defer setFlags()

	name := sc.Name
	if name == "" {
		name = "TestScenario"
	}
	entry := sc.Entry
	if entry == "" {
		entry = "check"
	}
	runs := sc.Runs
	if len(runs) == 0 {
		runs = []RunSpec{{}}
	}
	rec.Pause()
	ver := rapidVersionOf()
	rec.Resume()
	begin := F{"id": sc.ID, "name": name, "sname": SafeName(name), "entry": entry, "nruns": len(runs), "version": ver, "deadline": false}
	for k, v := range sc.Tag {
		begin[k] = normJSON(v)
	}
	curScenario.Store(sc.ID)
	rec.Emit("scen.begin", begin)
	r := NewRunner(rec)
	prevSeed, prevFile := "", ""
	savedFiles := map[int]string{}
	fuzzSeq := 0
	fuzzInputs := map[int][]byte{}
	Captured.mu.Lock()
	Captured.haveA, Captured.haveB, Captured.enabled = false, false, true
	Captured.mu.Unlock()
	for i := range runs {
		run := &runs[i]
		if run.StashPrev && prevFile != "" {
			sd := run.StashDir
			if sd == "" {
				sd = "stash"
			}
			_ = os.MkdirAll(filepath.Join(dir, sd), 0o775)
			dst := filepath.Join(dir, sd, filepath.Base(prevFile))
			if err := os.Rename(prevFile, dst); err == nil {
				savedFiles[i] = dst
				prevFile = dst
			}
		}
		if run.CleanDir {
			d2, _ := os.MkdirTemp(dir, "clean-")
			_ = os.Chdir(d2)
		}
		writeFiles(run.Files)
		lastSaved := ""
		for k := 1; k <= i; k++ {
			if savedFiles[k] != "" {
				lastSaved = savedFiles[k]
			}
		}
		if len(run.TruncPrev) > 0 && lastSaved != "" {
			if pf := ParseFailFile(lastSaved); pf["ok"] == true {
				words := pf["buf"].([]uint64)
				for _, j := range run.TruncPrev {
					if j > len(words) {
						j = len(words)
					}
					lines := []string{"# truncated by the harness", ver + "#0"}
					for _, w := range words[:j] {
						lines = append(lines, fmt.Sprintf("0x%x", w))
					}
					p := filepath.Join("testdata", "rapid", SafeName(name), fmt.Sprintf("%s-trunc%04d.fail", SafeName(name), j))
					_ = os.MkdirAll(filepath.Dir(p), 0o775)
					_ = os.WriteFile(p, []byte(strings.Join(lines, "\n")), 0o664)
				}
			}
		}
		if run.FreshProc {
			r2 := *run
			if run.SeedPrev && prevSeed != "" { // the printed seed, tried in a new process
				r2.Flags = map[string]string{}
				for k, v := range run.Flags {
					r2.Flags[k] = v
				}
				r2.Flags["seed"] = prevSeed
				r2.SeedPrev = false
			}
			runInFreshProcess(rec, sc, &r2, i)
			continue
		}
		extra := map[string]string{}
		if run.SeedPrev && prevSeed != "" {
			extra["rapid.seed"] = prevSeed
		}
		if run.FailfilePrev && prevFile != "" {
			extra["rapid.failfile"] = prevFile
		}
		if run.ShadowPrev != "" && prevFile != "" {
			sh := filepath.Join("elsewhere", filepath.Base(prevFile))
			_ = os.MkdirAll("elsewhere", 0o775)
			_ = os.WriteFile(sh, []byte(run.ShadowPrev), 0o664)
			extra["rapid.failfile"] = sh
		}
		if run.FailfileRun > 0 && savedFiles[run.FailfileRun] != "" {
			extra["rapid.failfile"] = savedFiles[run.FailfileRun]
		}
		if run.FailfileFuzz > 0 {
			ws := bytesToWords(fuzzInputs[run.FailfileFuzz])
			lines := []string{"# written by the harness", ver + "#0"}
			for _, w := range ws {
				lines = append(lines, fmt.Sprintf("0x%x", w))
			}
			p := filepath.Join(dir, fmt.Sprintf("fuzz-%d.fail", run.FailfileFuzz))
			_ = os.WriteFile(p, []byte(strings.Join(lines, "\n")), 0o664)
			extra["rapid.failfile"] = p
		}
		// "makecheck_early": the test function is made by MakeCheck before the flags have their values (a package-level table of
		// sub-tests, an init function) and run afterwards: the flags in force when it RUNS count
		var early func(*testing.T)
		earlyEntry := run.Entry == "makecheck_early" || (run.Entry == "" && entry == "makecheck_early")
		if earlyEntry {
			setFlags()
			ep := &sc.Prop
			if run.Prop != nil {
				ep = run.Prop
			}
			early = rapid.MakeCheck(r.Prop(ep))
		}
		eff := setFlags(sc.Flags, run.Flags, extra)
		for _, w := range run.Warm {
			rec.Pause()
			warm(w)
			rec.Resume()
		}
		p := &sc.Prop
		if run.Prop != nil {
			p = run.Prop
		}
		seed, _ := strconv.ParseUint(eff["rapid.seed"], 10, 64)
		checks, _ := strconv.Atoi(eff["rapid.checks"])
		if testing.Short() {
			checks /= 5 // (go test -short: rapid runs a fifth of the checks)
		}
		if p.Keyed && !(i > 0 && run.Prop == nil && (run.SeedPrev || run.FailfilePrev || run.Expect == "replay_prev" || run.Expect == "seed_prev")) {
			// (a re-run of the same property keeps the same value-keyed script: it is the same function of its draws)
			r.keyed = map[uint64][]Op{}
			maxIdx := 0
			for k := range p.Cases {
				if n, _ := strconv.Atoi(k); n > maxIdx {
					maxIdx = n
				}
			}
			sched := seedSchedule(seed, maxIdx)
			rec.Pause()
			for k, ops := range p.Cases {
				n, _ := strconv.Atoi(k)
				key := rapid.Uint64().Example(int(sched[n-1]))
				r.keyed[key] = ops
			}
			rec.Resume()
		}
		r.mu.Lock()
		for k := range r.counter {
			if strings.HasPrefix(k, "nth/") {
				delete(r.counter, k)
			}
		}
		r.mu.Unlock()
		ren := entry
		if run.Entry != "" {
			ren = run.Entry
		}
		if earlyEntry {
			ren = "makecheck"
		}
		pre := snapshotFS(name)
		rec.Emit("run.begin", F{"run": i + 1, "entry": ren, "checks": checks, "seed": W(seed), "fixedseed": seed != 0,
			"nofailfile": eff["rapid.nofailfile"] == "true", "failfile": eff["rapid.failfile"], "shrinktime": eff["rapid.shrinktime"],
			"steps": eff["rapid.steps"], "v": eff["rapid.v"] == "true", "files": pre, "keyed": p.Keyed, "expect": run.Expect, "expectRun": run.ExpectRun})
		prop := r.Prop(p)
		shrinkChainReset()
		switch ren {
		case "check":
			tb := NewRecTB(name, rec)
			InvStart() // (the whole engine call is watched, not only the property function)
			how, pv := tb.Run(func() { rapid.Check(tb, prop) })
			InvStop()
			rec.Emit("run.end", F{"run": i + 1, "how": how, "panic": fmt.Sprint(pv), "failed": tb.Failed(), "failnow": tb.failNow, "skipped": tb.skipped,
				"tries": shrinkTries(eff["rapid.shrinktime"]), "shrinkcut": shrinkCut(eff["rapid.shrinktime"])})
			prevSeed, prevFile = lastRepr(tb)
		case "makecheck":
			var failed, skipped bool
			r.mu.Lock()
			r.genInvs, r.genNs = 0, 0
			r.mu.Unlock()
			howMk := "subtest"
			t.Run(name, func(st *testing.T) {
				defer func() {
					if p := recover(); p != nil { // Check itself crashed (a property's panic never gets here)
						howMk = "panic"
					}
					failed, skipped = st.Failed(), st.Skipped()
				}()
				defer func() {
					// how much time was left when Check gave up / finished, against what its test cases cost
					d, has := st.Deadline()
					r.mu.Lock()
					n, ns := r.genInvs, r.genNs
					r.mu.Unlock()
					rec.Emit("timing", F{"run": i + 1, "hasdeadline": has, "remain_ms": int(time.Until(d) / time.Millisecond), "invs": n, "total_ms": int(ns / int64(time.Millisecond))})
				}()
				InvStart()
				defer InvStop()
				if early != nil {
					early(st)
				} else {
					rapid.MakeCheck(prop)(st)
				}
			})
			rec.Emit("run.end", F{"run": i + 1, "how": howMk, "panic": "", "failed": failed || howMk == "panic", "failnow": failed, "skipped": skipped,
				"tries": shrinkTries(eff["rapid.shrinktime"]), "shrinkcut": shrinkCut(eff["rapid.shrinktime"])})
		case "example":
			// Generator.Example: every call of a Custom generator function is an invocation with its own context and cleanups
			bg := r.genv.Build(run.ExampleGen)
			for k := 0; k < run.ExampleN; k++ {
				rec.Emit("example.begin", F{"run": i + 1, "k": k})
				InvStart()
				func() {
					defer InvStop()
					defer func() {
						p := recover()
						rec.Emit("example.end", F{"run": i + 1, "k": k, "panicked": p != nil})
					}()
					_ = bg.G.Example(k)
				}()
			}
			r.resample(*r.exCtxs(), "after")
			rec.Emit("run.end", F{"run": i + 1, "how": "example", "panic": "", "failed": false, "failnow": false, "skipped": false, "tries": "", "shrinkcut": false})
		case "fuzz":
			fz := rapid.MakeFuzz(prop)
			inputs := [][]byte{}
			for _, hx := range run.Fuzz {
				in, _ := hex.DecodeString(hx)
				inputs = append(inputs, in)
			}
			Captured.mu.Lock()
			for _, from := range run.FuzzFrom {
				if from == "recorded" && Captured.haveB {
					inputs = append(inputs, wordsToBytes(Captured.before))
				} else if from == "pruned" && Captured.haveA {
					inputs = append(inputs, wordsToBytes(Captured.after))
				} else {
					inputs = append(inputs, nil)
				}
			}
			Captured.mu.Unlock()
			for _, input := range inputs {
				fuzzSeq++
				j := fuzzSeq - 1
				fuzzInputs[fuzzSeq] = input
				status := "passed"
				rec.Emit("fuzz.begin", F{"run": i + 1, "j": j + 1, "input": input, "n": len(input)})
				completed := false
				t.Run(fmt.Sprintf("%s/fuzz%d", name, j), func(st *testing.T) {
					defer func() {
						// a panic escaping the fuzz target is a crash (Fatalf / SkipNow end the goroutine with Goexit, not with a panic)
						if p := recover(); p != nil {
							status = "crashed"
							return
						}
						switch {
						case st.Failed():
							status = "failed"
						case st.Skipped():
							status = "skipped"
						}
					}()
					InvStart()
					defer InvStop()
					fz(st, input)
					completed = true
				})
				rec.Emit("fuzz.end", F{"run": i + 1, "j": j + 1, "status": status, "completed": completed})
			}
			rec.Emit("run.end", F{"run": i + 1, "how": "fuzz", "panic": "", "failed": false, "failnow": false, "skipped": false, "tries": "", "shrinkcut": false})
		}
		if prevFile != "" {
			if abs, err := filepath.Abs(prevFile); err == nil {
				prevFile = abs
			}
			savedFiles[i+1] = prevFile
		}
		rec.Emit("fs", F{"run": i + 1, "files": snapshotFS(name)})
	}
	r.resample(r.lastCtxs, "after")
	rec.Emit("scen.end", F{"id": sc.ID})
}

func lastRepr(tb *RecTB) (seed, file string) {
	for _, e := range tb.Errors {
		f := F{}
		if reFailed.MatchString(e) {
			parseRepr(f, reFailed.FindStringSubmatch(e)[5])
		} else if reFlaky.MatchString(e) {
			parseRepr(f, reFlaky.FindStringSubmatch(e)[2])
		} else {
			continue
		}
		seed, _ = f["seed"].(string)
		file, _ = f["failfile"].(string)
	}
	return
}

// warm performs activity that must not influence later checks (C04: no
// dependence on what other checks or generators were used earlier).
func warm(kind string) {
	switch kind {
	case "strings":
		for i := 0; i < 5; i++ {
			_ = rapid.String().Example(i)
			_ = rapid.StringMatching(`[a-z]+\d*`).Example(i)
			_ = rapid.SliceOfBytesMatching(`(?i)ab|cd`).Example(i)
		}
	case "classes": // case-sensitive character classes whose printed form is that of common case-insensitive ones
		for i := 0; i < 3; i++ {
			_ = rapid.StringMatching(`[0-9]+x\d[A-Fa-f]`).Example(i)
			_ = rapid.SliceOfBytesMatching(`[A-Fa-f][0-9]\d`).Example(i)
		}
	case "labels":
		_ = rapid.Int().String()
		_ = rapid.SliceOf(rapid.Int()).String()
	case "check":
		tb := NewRecTB("TestWarm", nil)
		tb.Run(func() {
			rapid.Check(tb, func(t *rapid.T) {
				_ = rapid.SliceOfDistinct(rapid.IntRange(0, 3), rapid.ID[int]).Draw(t, "s")
				_ = rapid.MapOf(rapid.Int8(), rapid.String()).Draw(t, "m")
			})
		})
	case "failcheck":
		tb := NewRecTB("TestWarmFail", nil)
		tb.Run(func() {
			rapid.Check(tb, func(t *rapid.T) {
				if rapid.IntRange(0, 100).Draw(t, "x") > 50 {
					t.Fatalf("warm failure")
				}
			})
		})
	}
}

// Captured holds the last recording seen at prune() (hook), for replay scenarios.
var Captured struct {
	mu      sync.Mutex
	before  []uint64
	after   []uint64
	haveB   bool
	haveA   bool
	enabled bool
}

// CurPhase is the kind of the invocation in progress (from the phase hook).
var CurPhase atomic.Value

// RejState: has the last rejection of a repeat (collection element, Repeat action) made it stop -- "enough rejections, and the minimum is
// reached" -- and how many coins have been flipped since (the forced stop waits for a coin that stops by itself)
var RejState struct {
	mu      sync.Mutex
	pending bool
	coins   int
}

func rejHook(ev string, kv []any) {
	switch ev {
	case "repeat.reject":
		var min, count, rej int
		for i := 0; i+1 < len(kv); i += 2 {
			switch kv[i] {
			case "min":
				min, _ = kv[i+1].(int)
			case "count":
				count, _ = kv[i+1].(int)
			case "rejections":
				rej, _ = kv[i+1].(int)
			}
		}
		RejState.mu.Lock()
		RejState.pending, RejState.coins = rej > 2*count && count >= min, 0
		RejState.mu.Unlock()
	case "repeat.more":
		RejState.mu.Lock()
		RejState.pending = false
		RejState.mu.Unlock()
	case "coin":
		RejState.mu.Lock()
		if RejState.pending {
			RejState.coins++
		}
		RejState.mu.Unlock()
	}
}

// the chain of candidates the minimizer tried in the current run (their order is part of "the whole run")
var shrinkChain struct {
	mu    sync.Mutex
	h     uint64
	n     int
	begun time.Time
	took  time.Duration
	done  bool
}

func shrinkChainReset() {
	shrinkChain.mu.Lock()
	shrinkChain.h, shrinkChain.n, shrinkChain.done, shrinkChain.took = 0, 0, false, 0
	shrinkChain.mu.Unlock()
}

// shrinkTries: "" when nothing was minimized in this run or the minimizer may have been cut short by -rapid.shrinktime
func shrinkTries(shrinktime string) string {
	shrinkChain.mu.Lock()
	defer shrinkChain.mu.Unlock()
	d, err := time.ParseDuration(shrinktime)
	if !shrinkChain.done || err != nil || shrinkChain.took > d/2 {
		return ""
	}
	return fmt.Sprintf("%d:%016x", shrinkChain.n, shrinkChain.h)
}

// shrinkCut: the minimizer ran for (nearly) all of its time budget -- what it ended with need not be minimal
func shrinkCut(shrinktime string) bool {
	shrinkChain.mu.Lock()
	defer shrinkChain.mu.Unlock()
	d, err := time.ParseDuration(shrinktime)
	return shrinkChain.done && err == nil && d > 0 && shrinkChain.took > d/2
}

func shrinkChainHook(ev string, kv []any) {
	switch ev {
	case "shrink.begin":
		shrinkChain.mu.Lock()
		shrinkChain.h, shrinkChain.n, shrinkChain.begun, shrinkChain.done = 14695981039346656037, 0, time.Now(), false
		shrinkChain.mu.Unlock()
	case "shrink.end":
		shrinkChain.mu.Lock()
		shrinkChain.took, shrinkChain.done = time.Since(shrinkChain.begun), true
		shrinkChain.mu.Unlock()
	case "accept":
		for i := 0; i+1 < len(kv); i += 2 {
			if kv[i] == "cand" {
				shrinkChain.mu.Lock()
				h := shrinkChain.h
				for _, w := range kv[i+1].([]uint64) {
					h = (h ^ w) * 1099511628211
				}
				shrinkChain.h = (h ^ 0xff) * 1099511628211
				shrinkChain.n++
				shrinkChain.mu.Unlock()
			}
		}
	}
}

func CaptureHook(ev string, kv []any) {
	rejHook(ev, kv)
	shrinkChainHook(ev, kv)
	if ev == "phase" {
		for i := 0; i+1 < len(kv); i += 2 {
			if kv[i] == "kind" {
				CurPhase.Store(kv[i+1])
			}
		}
		return
	}
	if ev != "prune.begin" && ev != "prune.end" {
		return
	}
	Captured.mu.Lock()
	defer Captured.mu.Unlock()
	if !Captured.enabled {
		return
	}
	for i := 0; i+1 < len(kv); i += 2 {
		if kv[i] == "data" {
			w := append([]uint64{}, kv[i+1].([]uint64)...)
			if ev == "prune.begin" && !Captured.haveB {
				Captured.before, Captured.haveB = w, true
			} else if ev == "prune.end" && !Captured.haveA {
				Captured.after, Captured.haveA = w, true
			}
		}
	}
}

func wordsToBytes(ws []uint64) []byte {
	out := make([]byte, 0, 8*len(ws))
	for _, w := range ws {
		for i := 0; i < 8; i++ {
			out = append(out, byte(w>>(8*i)))
		}
	}
	return out
}

// bytesToWords: the harness's own reading of the documented MakeFuzz input format
func bytesToWords(b []byte) []uint64 {
	var out []uint64
	for i := 0; i < len(b); i += 8 {
		var w uint64
		for k := 0; k < 8 && i+k < len(b); k++ {
			w |= uint64(b[i+k]) << (8 * k)
		}
		out = append(out, w)
	}
	return out
}

var cachedVersion string

// rapidVersionOf learns the library's fail-file version from a file the library itself writes (public behaviour only).
func rapidVersionOf() string {
	if cachedVersion != "" {
		return cachedVersion
	}
	orig, _ := os.Getwd()
	d, err := os.MkdirTemp(*fWork, "verif-ver-")
	if err != nil {
		return ""
	}
	defer func() { _ = os.Chdir(orig); _ = os.RemoveAll(d) }()
	_ = os.Chdir(d)
	setFlags(map[string]string{"checks": "1", "shrinktime": "0s"})
	tb := NewRecTB("TestVersionProbe", nil)
	tb.Run(func() { rapid.Check(tb, func(t *rapid.T) { t.Fatalf("probe") }) })
	setFlags()
	for _, f := range snapshotFS("TestVersionProbe") {
		if v, ok := f.(F)["version"].(string); ok {
			cachedVersion = v
		}
	}
	return cachedVersion
}

// normJSON turns integral JSON numbers (decoded as float64) back into ints, recursively.
func normJSON(v any) any {
	switch x := v.(type) {
	case float64:
		if x == float64(int(x)) {
			return int(x)
		}
		return x
	case []any:
		out := make([]any, len(x))
		for i, e := range x {
			out[i] = normJSON(e)
		}
		return out
	case map[string]any:
		out := F{}
		for k, e := range x {
			out[k] = normJSON(e)
		}
		return out
	}
	return v
}

// runInFreshProcess executes one run of a scenario in a new process of the same binary (same working
// directory) and splices the events it records into this trace, renumbering the run.
func runInFreshProcess(rec *Recorder, sc *Scenario, run *RunSpec, idx int) {
	one := *sc
	r2 := *run
	r2.FreshProc = false
	one.Runs = []RunSpec{r2}
	wd, _ := os.Getwd()
	in, _ := os.CreateTemp(wd, "fresh-*.in")
	b, _ := json.Marshal(one)
	_, _ = in.Write(b)
	_ = in.Close()
	out := in.Name() + ".out"
	args := []string{"-test.run", "^TestVerif$", "-test.timeout", "0", "-verif.in", in.Name(), "-verif.out", out, "-verif.inplace"}
	if *fEvents != "" {
		args = append(args, "-verif.events", *fEvents)
	}
	cmd := exec.Command(os.Args[0], args...)
	cmd.Dir = wd
	_ = cmd.Run()
	data, err := os.ReadFile(out)
	_ = os.Remove(in.Name())
	_ = os.Remove(out)
	if err != nil {
		rec.Emit("harness.error", F{"msg": "fresh process produced no trace"})
		return
	}
	for _, line := range strings.Split(string(data), "\n") {
		if strings.TrimSpace(line) == "" {
			continue
		}
		var ev map[string]any
		if json.Unmarshal([]byte(line), &ev) != nil {
			continue
		}
		name, _ := ev["ev"].(string)
		if name == "scen.begin" || name == "scen.end" || name == "harness.done" {
			continue
		}
		delete(ev, "ev")
		delete(ev, "seq")
		if _, ok := ev["run"]; ok && (name == "run.begin" || name == "run.end" || name == "fs" || name == "fuzz.begin" || name == "fuzz.end") {
			ev["run"] = idx + 1
		}
		if name == "run.begin" {
			ev["expect"], ev["expectRun"], ev["freshProc"] = run.Expect, run.ExpectRun, true
		}
		rec.EmitRaw(name, normJSON(ev).(F))
	}
}
