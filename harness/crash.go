package harness

// Crash-point enumeration for the fail-file save (C16).  The parent re-executes
// the test binary as a child that performs one failing Check in a fresh
// directory; a gate function installed through rapid.VerifSetGate kills the
// child (SIGKILL to itself) on entry to its k-th file-system step of
// saveFailFile.  The parent then reads the directory back with its own parser.

import (
	"encoding/json"
	"fmt"
	"os"
	"os/exec"
	"path/filepath"
	"regexp"
	"strconv"
	"strings"
	"sync"
	"syscall"
	"testing"
	"time"

	"pgregory.net/rapid"
)

type CrashScenario struct {
	Log    bool   `json:"log"`
	ID     string `json:"id"`
	Name   string `json:"name"`
	Lines  int    `json:"lines"`  // number of logged lines
	LineN  int    `json:"lineN"`  // bytes per line
	Words  int    `json:"words"`  // draws (size of the bitstream)
	Points []int  `json:"points"` // crash points to try (1-based gate numbers); empty = all
	Max    int    `json:"max"`    // cap on the number of crash points (first/last kept, strided in between)
}

type childSpec struct {
	Conc   bool   `json:"conc"` // two checks whose names map to the same fail-file name save at the same time
	Fresh  bool   `json:"fresh"`
	Name   string `json:"name"`
	Lines  int    `json:"lines"`
	LineN  int    `json:"lineN"`
	Words  int    `json:"words"`
	KillAt int    `json:"killAt"`
	Second bool   `json:"second"` // the second saver's output (lines of 'y')
	Log    bool   `json:"log"`    // run with -rapid.log (rapid's own eager logger)
}

var reStamp = regexp.MustCompile(`\d{4}/\d\d/\d\d \d\d:\d\d:\d\d\.\d{6}`)

// snapshotDir lists every file under testdata/rapid with a digest that ignores time stamps in comments.
func snapshotDir(name string) []any {
	files := snapshotFS(name)
	for _, f := range files {
		m := f.(F)
		data, err := os.ReadFile(m["path"].(string))
		if err == nil {
			m["ndigest"] = hashStr(reStamp.ReplaceAllString(string(data), "<ts>"))
			m["size"] = len(data)
		} else {
			m["ndigest"] = "unreadable"
		}
		delete(m, "buf")
	}
	return files
}

// ChildMain runs in the child process.
func ChildMain(t *testing.T, specJSON string) {
	var cs childSpec
	if err := json.Unmarshal([]byte(specJSON), &cs); err != nil {
		t.Fatal(err)
	}
	if cs.Fresh { // C18: the first values a Check without -rapid.seed draws in a new process
		setFlags(map[string]string{"checks": "20", "nofailfile": "true"})
		fs := oneFreshCheck("TestFresh")
		_ = os.WriteFile("fresh.out", []byte(strings.Join(fs, " ")), 0o644)
		return
	}
	if cs.Conc {
		concurrentSavers(cs)
		return
	}
	gates := 0
	rapid.VerifSetGate(func(point string) {
		if !strings.HasPrefix(point, "save.") {
			return
		}
		gates++
		if gates == cs.KillAt {
			_ = os.WriteFile("gate.killed", []byte(fmt.Sprintf("%d %s", gates, point)), 0o644)
			_ = syscall.Kill(os.Getpid(), syscall.SIGKILL)
			select {}
		}
	})
	fl := map[string]string{"checks": "1", "seed": "12345", "shrinktime": "0s"}
	if cs.Log {
		fl["log"] = "true"
	}
	setFlags(fl)
	ch := "x"
	if cs.Second {
		ch = "y"
	}
	line := strings.Repeat(ch, cs.LineN)
	tb := NewRecTB(cs.Name, nil)
	tb.Run(func() {
		rapid.Check(tb, func(rt *rapid.T) {
			for i := 0; i < cs.Lines; i++ {
				rt.Log(line)
			}
			for i := 0; i < cs.Words; i++ {
				_ = rapid.Bool().Draw(rt, "b")
			}
			rt.Fatalf("always")
		})
	})
	_ = os.WriteFile("gates.total", []byte(strconv.Itoa(gates)), 0o644)
}

// saverProp: the failing property of a saver (B logs other lines and draws more than A, so that a mixture of the two files shows)
func saverProp(cs childSpec, second bool) func(*rapid.T) {
	lines, lineN, words, ch := cs.Lines, cs.LineN, cs.Words, "x"
	if second {
		lines, lineN, words, ch = cs.Lines/2+1, cs.LineN+3, cs.Words+2, "y"
	}
	line := strings.Repeat(ch, lineN)
	return func(rt *rapid.T) {
		for i := 0; i < lines; i++ {
			rt.Log(line)
		}
		for i := 0; i < words; i++ {
			_ = rapid.Bool().Draw(rt, "b")
		}
		rt.Fatalf("always")
	}
}

func saverNames(name string) (string, string) { return name + "/a", name + "_a" } // distinct test names, one fail-file name

// concurrentSavers: two failing checks run at the same time; their saves meet at every write (rendezvous gate)
func concurrentSavers(cs childSpec) {
	var b barrier
	b.every = true
	rapid.VerifSetGate(func(point string) {
		if point == "save.write" || point == "save.create" || point == "save.rename" {
			b.mu.Lock()
			b.rendezvousFor(2 * time.Millisecond)
		}
	})
	setFlags(map[string]string{"checks": "1", "seed": "12345", "shrinktime": "0s"})
	na, nb := saverNames(cs.Name)
	var wg sync.WaitGroup
	for i, n := range []string{na, nb} {
		wg.Add(1)
		go func(i int, n string) {
			defer wg.Done()
			tb := NewRecTB(n, nil)
			tb.Run(func() { rapid.Check(tb, saverProp(cs, i == 1)) })
		}(i, n)
	}
	wg.Wait()
}

func runChild(dir string, cs childSpec) (killed bool, gate string, total int, err error) {
	b, _ := json.Marshal(cs)
	cmd := exec.Command(os.Args[0], "-test.run", "^TestVerifChild$", "-test.timeout", "0", "-verif.child", string(b))
	cmd.Dir = dir
	out, e := cmd.CombinedOutput()
	if e != nil {
		if ee, ok := e.(*exec.ExitError); ok {
			if ws, ok := ee.Sys().(syscall.WaitStatus); ok && ws.Signaled() && ws.Signal() == syscall.SIGKILL {
				killed = true
			} else {
				return false, "", 0, fmt.Errorf("child failed: %v\n%s", e, out)
			}
		} else {
			return false, "", 0, e
		}
	}
	if g, e := os.ReadFile(filepath.Join(dir, "gate.killed")); e == nil {
		gate = string(g)
	}
	if g, e := os.ReadFile(filepath.Join(dir, "gates.total")); e == nil {
		total, _ = strconv.Atoi(string(g))
	}
	return
}

func crashMode(t *testing.T, rec *Recorder) {
	f, err := os.ReadFile(*fIn)
	if err != nil {
		t.Fatal(err)
	}
	for _, line := range strings.Split(string(f), "\n") {
		if strings.TrimSpace(line) == "" {
			continue
		}
		var sc CrashScenario
		if err := json.Unmarshal([]byte(line), &sc); err != nil {
			t.Fatal(err)
		}
		base, _ := os.MkdirTemp(*fWork, "verif-crash-")
		cs := childSpec{Name: sc.Name, Lines: sc.Lines, LineN: sc.LineN, Words: sc.Words, Log: sc.Log}
		ref := filepath.Join(base, "ref")
		_ = os.MkdirAll(ref, 0o775)
		_, _, total, err := runChild(ref, cs)
		orig, _ := os.Getwd()
		_ = os.Chdir(ref)
		reffs := snapshotDir(sc.Name)
		_ = os.Chdir(orig)
		rec.Emit("scen.begin", F{"id": sc.ID, "name": sc.Name, "sname": SafeName(sc.Name), "lines": sc.Lines, "lineN": sc.LineN, "words": sc.Words, "gates": total})
		rec.Emit("crash.ref", F{"files": reffs, "gates": total, "err": fmt.Sprint(err)})
		// reference of a later, smaller save of the same test (see crash.resave below)
		small := childSpec{Name: sc.Name, Lines: 0, LineN: 0, Words: 1}
		ref2 := filepath.Join(base, "ref2")
		_ = os.MkdirAll(ref2, 0o775)
		_, _, _, _ = runChild(ref2, small)
		_ = os.Chdir(ref2)
		rec.Emit("crash.ref2", F{"files": snapshotDir(sc.Name)})
		_ = os.Chdir(orig)
		points := sc.Points
		if len(points) == 0 {
			for k := 1; k <= total+1; k++ {
				points = append(points, k)
			}
			if sc.Max > 0 && len(points) > sc.Max {
				keep := map[int]bool{}
				for k := 1; k <= sc.Max/2; k++ {
					keep[k] = true
				}
				for k := total + 1; k > total+1-sc.Max/4; k-- {
					keep[k] = true
				}
				step := (total + sc.Max/4) / (sc.Max / 4)
				for k := sc.Max / 2; k <= total; k += step {
					keep[k] = true
				}
				points = points[:0]
				for k := 1; k <= total+1; k++ {
					if keep[k] {
						points = append(points, k)
					}
				}
			}
		}
		for _, k := range points {
			d := filepath.Join(base, fmt.Sprintf("k%d", k))
			_ = os.MkdirAll(d, 0o775)
			cs.KillAt = k
			killed, gate, _, err := runChild(d, cs)
			_ = os.Chdir(d)
			fs := snapshotDir(sc.Name)
			_ = os.Chdir(orig)
			rec.Emit("crash.run", F{"k": k, "killed": killed, "gate": gate, "err": fmt.Sprint(err), "files": fs})
			if killed && (len(points) <= 24 || k%5 == 0) {
				// the test is run again later and saves a (smaller) failure, uninterrupted, into the directory the killed run left behind
				_, _, _, err2 := runChild(d, small)
				_ = os.Chdir(d)
				fs2 := snapshotDir(sc.Name)
				_ = os.Chdir(orig)
				rec.Emit("crash.resave", F{"k": k, "err": fmt.Sprint(err2), "files": fs2})
			}
			_ = os.RemoveAll(d)
		}
		// two checks whose names map to the same fail-file name fail and save at the same time (three rounds: the file name has a one-second time stamp)
		na, nb := saverNames(sc.Name)
		refs := []string{}
		for i, n := range []string{na, nb} {
			d := filepath.Join(base, fmt.Sprintf("cref%d", i))
			_ = os.MkdirAll(d, 0o775)
			one := cs
			one.KillAt, one.Name = 0, n
			if i == 1 {
				one.Lines, one.LineN, one.Words = cs.Lines/2+1, cs.LineN+3, cs.Words+2
				one.Second = true
			}
			_, _, _, _ = runChild(d, one)
			_ = os.Chdir(d)
			for _, f := range snapshotDir(n) {
				if m := f.(F); m["glob"] == true {
					refs = append(refs, m["ndigest"].(string))
				}
			}
			_ = os.Chdir(orig)
		}
		for round := 0; round < 3; round++ {
			d := filepath.Join(base, fmt.Sprintf("conc%d", round))
			_ = os.MkdirAll(d, 0o775)
			cc := cs
			cc.KillAt, cc.Conc = 0, true
			_, _, _, errc := runChild(d, cc)
			_ = os.Chdir(d)
			fs := snapshotDir(na)
			_ = os.Chdir(orig)
			rec.Emit("crash.conc", F{"round": round, "err": fmt.Sprint(errc), "files": fs, "refs": refs})
			_ = os.RemoveAll(d)
		}
		rec.Emit("scen.end", F{"id": sc.ID})
		_ = os.RemoveAll(base)
	}
}

func init() {
	modes["crash"] = crashMode
}
