package harness

// Property interpreter: a scenario's property is a small script whose control
// flow depends on drawn values only, so every scripted property is a
// deterministic function of its draws.  Each step is logged.  Exits by panic are
// detected with a completion flag in a defer, never with recover (which would
// alter the traceback rapid compares).

import (
	"context"
	"errors"
	"fmt"
	"math/big"
	"reflect"
	"runtime"
	"sort"
	"strings"
	"sync"
	"testing"
	"time"

	"pgregory.net/rapid"
)

type Cond struct {
	Var string `json:"var"`
	Cmp string `json:"cmp"` // ge le gt lt eq ne lenge lenlt
	Val string `json:"val"`
}

type Op struct {
	Op      string          `json:"op"`
	Gen     *GenSpec        `json:"gen,omitempty"`
	Label   string          `json:"label,omitempty"`
	Var     string          `json:"var,omitempty"`
	Site    int             `json:"site,omitempty"`
	Val     string          `json:"val,omitempty"`
	Body    []Op            `json:"body,omitempty"`
	Else    []Op            `json:"else,omitempty"`
	Cond    *Cond           `json:"cond,omitempty"`
	Actions map[string][]Op `json:"actions,omitempty"`
	Inv     []Op            `json:"inv,omitempty"`
	Ms      int             `json:"ms,omitempty"`
	Text    string          `json:"text,omitempty"`
	N       int             `json:"n,omitempty"`
	ID      int             `json:"id,omitempty"`
}

type PropSpec struct {
	SleepAt int             `json:"sleepAt,omitempty"` // sleep in the k-th invocation after the first one that signalled a failure
	SleepMs int             `json:"sleepMs,omitempty"`
	Keyed   bool            `json:"keyed,omitempty"`
	Cases   map[string][]Op `json:"cases,omitempty"` // 1-based index of the random test case -> script
	Default []Op            `json:"default,omitempty"`
	Body    []Op            `json:"body,omitempty"`
}

type Runner struct {
	goSeq     int
	genInvs   int   // invocations of the random generation phase in the current run, and the time they took
	genNs     int64 // (what Check's early-exit estimate near a test deadline is based on)
	rec       *Recorder
	genv      *GenEnv
	mu        sync.Mutex
	invSeq    int
	ctxIDs    map[context.Context]int
	cleanID   int
	keyed     map[uint64][]Op
	prop      *PropSpec
	counter   map[string]int // per-scenario counters (j-th call of an action etc.)
	curTop    int            // id of the property-function invocation in progress
	curCtxs   *[]ctxRef
	lastCtxs  []ctxRef          // contexts of the last finished property-function invocation
	firstFail int               // id of the first invocation that signalled a failure (0 = none yet)
	shared    map[string]any    // values shared with Custom generator functions (op share)
	async     []*sync.WaitGroup // goroutines started with goasync and not yet joined
}

// A barrier holds goroutines at a named gate of rapid (hook verifAt) until n of them have arrived
// (or a short time has passed), so that they enter the next step together: schedule replay of the
// interleavings the design model singles out.
type barrier struct {
	mu      sync.Mutex
	point   string
	need    int
	arrived int
	release chan struct{}
	every   bool          // rendezvous at every arrival (point name ended in "*")
	waiting chan struct{} // the goroutine waiting for a partner
	goAt    time.Time
}

var theBarrier barrier

// hold: one goroutine is parked at one gate until another goroutine has reached another gate ("hold" op; schedule replay of an
// interleaving that needs two different program points).  Armed for one use; a parked goroutine goes on after 2 s at the latest.
var theHold struct {
	mu           sync.Mutex
	point, until string
	ch           chan struct{}
	parked       bool
}

func setHold(point, until string) {
	theHold.mu.Lock()
	theHold.point, theHold.until, theHold.ch, theHold.parked = point, until, make(chan struct{}), false
	theHold.mu.Unlock()
}

func holdGate(point string) {
	h := &theHold
	h.mu.Lock()
	switch {
	case h.point != "" && point == h.point && !h.parked:
		h.parked = true
		ch := h.ch
		h.mu.Unlock()
		select {
		case <-ch:
		case <-time.After(2 * time.Second):
		}
		return
	case h.point != "" && point == h.until && h.parked:
		close(h.ch)
		h.point, h.until = "", ""
	}
	h.mu.Unlock()
}

func (r *Runner) setBarrier(point string, n int) {
	theBarrier.mu.Lock()
	theBarrier.every = strings.HasSuffix(point, "*")
	theBarrier.point, theBarrier.need, theBarrier.arrived = strings.TrimSuffix(point, "*"), n, 0
	theBarrier.release = make(chan struct{})
	theBarrier.waiting = nil
	theBarrier.mu.Unlock()
}

// rendezvous: with a point name ending in "*" every arrival at the gate waits briefly for a second goroutine to arrive there too
// (possible only if the code lets two goroutines into that section at once), and both go on together.
func (b *barrier) rendezvous() { b.rendezvousFor(300 * time.Microsecond) }

// rendezvousFor is called with b.mu held.
func (b *barrier) rendezvousFor(wait time.Duration) {
	spin := func(until time.Time) { // both leave the gate at (nearly) the same instant
		for time.Now().Before(until) {
		}
	}
	if ch := b.waiting; ch != nil {
		b.waiting = nil
		b.goAt = time.Now().Add(100 * time.Microsecond)
		until := b.goAt
		close(ch)
		b.mu.Unlock()
		spin(until)
		return
	}
	ch := make(chan struct{})
	b.waiting = ch
	b.mu.Unlock()
	select {
	case <-ch:
		b.mu.Lock()
		until := b.goAt
		b.mu.Unlock()
		spin(until)
	case <-time.After(wait):
		b.mu.Lock()
		if b.waiting == ch {
			b.waiting = nil
		}
		b.mu.Unlock()
	}
}

// GateFn is installed with rapid.VerifSetGate.
func GateFn(point string) {
	holdGate(point)
	b := &theBarrier
	b.mu.Lock()
	if b.point != "" && b.point == point && b.every {
		b.rendezvous()
		return
	}
	if b.point == "" || b.point != point || b.arrived >= b.need {
		b.mu.Unlock()
		return
	}
	b.arrived++
	ch := b.release
	if b.arrived == b.need {
		close(ch)
		b.mu.Unlock()
		return
	}
	b.mu.Unlock()
	select {
	case <-ch:
	case <-time.After(50 * time.Millisecond): // the others cannot get here (e.g. a lock is held): go on
	}
}

// exCtxs: contexts obtained by Custom functions called outside a property function (Generator.Example)
func (r *Runner) exCtxs() *[]ctxRef {
	r.mu.Lock()
	defer r.mu.Unlock()
	if r.curCtxs == nil {
		r.curCtxs = &[]ctxRef{}
	}
	return r.curCtxs
}

func NewRunner(rec *Recorder) *Runner {
	r := &Runner{rec: rec, ctxIDs: map[context.Context]int{}, counter: map[string]int{}, shared: map[string]any{}}
	r.genv = &GenEnv{cache: map[*GenSpec]*Built{}, run: r}
	return r
}

// useUp modifies a drawn slice in place, as a check that sorts or consumes its value would.
func useUp(v any) {
	if p, ok := v.([]any); ok {
		for i, j := 0, len(p)-1; i < j; i, j = i+1, j-1 {
			p[i], p[j] = p[j], p[i]
		}
	}
}

// keptValue: a drawn value and what it looked like when it was drawn (a value belongs to the test case that drew it: nothing the
// library does later -- further draws, other generators -- may change it)
type keptValue struct {
	label, gen string
	v          any
	dval       string
}

type inv struct {
	kept    *[]keptValue
	r       *Runner
	t       *rapid.T
	id      int
	top     int             // id of the enclosing property-function invocation
	ctxs    *[]ctxRef       // every context obtained in this invocation (shared with sub-scripts)
	g       int             // goroutine tag (0 = the goroutine running the property)
	grp     int             // > 0 inside the goroutines of one "go" op: what they register concurrently has no defined order among itself
	quiet   bool            // do not record the steps of this script (ungated race-detector runs)
	lastCtx context.Context // what this goroutine's last polling "ctx" op was handed
	vars    map[string]any
	last    string
}

func (r *Runner) ctxID(c context.Context) int {
	r.mu.Lock()
	defer r.mu.Unlock()
	if id, ok := r.ctxIDs[c]; ok {
		return id
	}
	id := len(r.ctxIDs) + 1
	r.ctxIDs[c] = id
	return id
}

func ctxErr(c context.Context) string {
	if err := c.Err(); err != nil {
		if errors.Is(err, context.Canceled) {
			return "canceled"
		}
		return err.Error()
	}
	return "nil"
}

// Prop returns the property function of the scenario.
func (r *Runner) Prop(p *PropSpec) func(*rapid.T) {
	r.prop = p
	return func(t *rapid.T) {
		r.mu.Lock()
		r.invSeq++
		in := &inv{r: r, t: t, id: r.invSeq, vars: map[string]any{}}
		in.top = in.id
		r.curTop = in.id
		in.ctxs = &[]ctxRef{}
		in.kept = &[]keptValue{}
		prevCtxs := r.lastCtxs
		r.lastCtxs = nil
		r.curCtxs = in.ctxs
		r.mu.Unlock()
		r.resample(prevCtxs, "after")
		InvStart()
		defer InvStop()
		if ph, _ := CurPhase.Load().(string); ph == "gen" {
			t0 := time.Now()
			defer func() {
				r.mu.Lock()
				r.genInvs++
				r.genNs += int64(time.Since(t0))
				r.mu.Unlock()
			}()
		}
		RejState.mu.Lock()
		RejState.pending = false
		RejState.mu.Unlock()
		r.rec.Emit("inv.begin", F{"inv": in.id})
		r.mu.Lock()
		ff := r.firstFail
		r.mu.Unlock()
		if p.SleepAt > 0 && ff > 0 && in.id == ff+p.SleepAt {
			time.Sleep(time.Duration(p.SleepMs) * time.Millisecond) // run past the minimization deadline at a chosen point
		}
		done := false
		defer func() {
			how := "unwind"
			if done {
				how = "ret"
			}
			RejState.mu.Lock()
			rp, rc := RejState.pending, RejState.coins
			RejState.pending = false
			RejState.mu.Unlock()
			r.rec.Emit("inv.end", F{"inv": in.id, "how": how, "last": in.last, "rejpend": rp, "rejcoins": rc})
			r.mu.Lock()
			r.lastCtxs = *in.ctxs
			r.mu.Unlock()
		}()
		ops := p.Body
		if p.Keyed {
			k := rapid.Uint64().Draw(t, "key")
			r.rec.Emit("draw", F{"inv": in.id, "label": "key", "val": fmtVal(k), "dval": fmtVal(k), "key": W(k)})
			var ok bool
			if ops, ok = r.keyed[k]; !ok {
				ops = p.Default
			}
		}
		in.run(ops)
		for _, kv := range *in.kept {
			if now := deepVal(kv.v); now != kv.dval {
				r.rec.Emit("contract", F{"inv": in.id, "gen": kv.gen, "c": "kept", "ok": false, "label": kv.label})
			}
		}
		done = true
	}
}

func (in *inv) run(ops []Op) {
	for i := range ops {
		in.step(&ops[i])
	}
}

type ctxRef struct {
	inv int
	c   context.Context
}

func (in *inv) noteCtx(c context.Context) {
	in.r.mu.Lock()
	*in.ctxs = append(*in.ctxs, ctxRef{in.id, c})
	in.r.mu.Unlock()
}

// resample reports the state of every context obtained so far in this invocation
func (r *Runner) resample(refs []ctxRef, where string) {
	for _, cr := range refs {
		r.rec.Emit("ctx", F{"inv": cr.inv, "id": r.ctxID(cr.c), "err": ctxErr(cr.c), "where": where})
	}
}

type customPanic struct{ S string }
type customErr struct{ s string }

func (e customErr) Error() string { return e.s }

func (in *inv) call(m string, site int, msg string) {
	in.last = m
	if m != "skip" {
		in.r.mu.Lock()
		if in.r.firstFail == 0 {
			in.r.firstFail = in.top
		}
		in.r.mu.Unlock()
	}
	if !in.quiet {
		in.r.rec.Emit("call", F{"inv": in.id, "m": m, "site": site, "msg": Digest(msg), "g": in.g})
	}
}

// expectedMsg is the text rapid reports for a failure raised by op at site tag
// ("" when the text is not under the harness's control, e.g. runtime errors).
func expectedMsg(op *Op, tag string) string {
	switch op.Op {
	case "fatalf":
		return fmt.Sprintf("fatal at %s %s", tag, op.Text)
	case "fatal":
		return fmt.Sprint("fatal at", tag, op.Text)
	case "failnow":
		return "(*T).FailNow() called"
	case "panic":
		switch op.Val {
		case "error":
			return "boom " + tag
		case "struct":
			return "{boom " + tag + "}"
		case "int":
			return "42"
		case "data":
			return "boom " + tag + " " + op.Text
		case "dataerr":
			return "boom " + tag + " " + op.Text
		default:
			return "boom " + tag
		}
	}
	return ""
}

func (in *inv) step(op *Op) {
	r, t := in.r, in.t
	switch op.Op {
	case "errorf", "error", "fatalf", "fatal", "panic", "rterr":
		if op.Var != "" { // a failure whose message / panic value shows the data it failed on
			c := *op
			c.Var = ""
			c.Text = op.Text + " " + fmtVal(in.vars[op.Var])
			if c.Op == "rterr" && c.Val == "indexv" {
				n, _ := toBig(in.vars[op.Var])
				c.N = 3
				if n != nil {
					c.N = 3 + int(new(big.Int).Mod(new(big.Int).Abs(n), big.NewInt(1000000)).Int64())
				}
			}
			in.step(&c)
			return
		}
	}
	switch op.Op {
	case "draw":
		b := r.genv.Build(op.Gen)
		v := b.G.Draw(t, op.Label)
		if op.Var != "" {
			in.vars[op.Var] = v
		}
		f := F{"inv": in.id, "label": op.Label, "val": fmtVal(v), "dval": deepVal(v), "gen": b.Desc}
		if r.rec.Wants("contract") && !(r.rec.Wants("final-contracts-only") && CurPhase.Load() != "final") {
			c := b.Check(v)
			c["inv"], c["gen"] = in.id, b.Desc
			r.rec.Emit("draw", f)
			r.rec.Emit("contract", c)
		} else {
			r.rec.Emit("draw", f)
		}
		if b.Desc == "Permutation" || b.Desc == "MapSampled" {
			useUp(v) // the check does with its value what it likes (here: reverses it in place); the generator must not notice
		}
		if r.rec.Wants("contract") && in.kept != nil {
			*in.kept = append(*in.kept, keptValue{op.Label, b.Desc, v, deepVal(v)})
		}
	case "if":
		if in.eval(op.Cond) {
			in.run(op.Body)
		} else {
			in.run(op.Else)
		}
	case "errorf":
		in.call("errorf", 0, fmt.Sprintf("nonfatal %s", op.Text))
		t.Errorf("nonfatal %s", op.Text)
	case "error":
		in.call("error", 0, fmt.Sprint("nonfatal", op.Text))
		t.Error("nonfatal", op.Text)
	case "errornl": // a non-fatal failure whose message begins with a line break (the shape assertion libraries produce)
		msg := "\n\tError: not equal\n\twant: 1\n\tgot:  2 " + op.Text
		in.call("errorf", 0, msg)
		if op.N == 1 {
			t.Error(msg)
		} else {
			t.Errorf("%s", msg)
		}
	case "error0": // a non-fatal failure with an empty message
		in.call("error", 0, "")
		t.Error()
	case "fail":
		in.call("fail", 0, "(*T).Fail() called")
		t.Fail()
	case "fatalfc": // a failure whose message differs from call to call (the verdict still depends on the draws only)
		r.mu.Lock()
		r.counter["fatalfc"]++
		c := r.counter["fatalfc"]
		r.mu.Unlock()
		in.call("fatalf", 0, "")
		t.Fatalf("failure number %d", c)
	case "fatalf", "fatal", "failnow", "panic", "rterr":
		in.call(op.Op, op.Site%len(sites), expectedMsg(op, fmt.Sprintf("s%d", op.Site%len(sites))))
		sites[op.Site%len(sites)](t, op)
	case "skip":
		in.call("skip", 0, "")
		t.Skip("skipped")
	case "skipf":
		in.call("skip", 0, "")
		t.Skipf("skipped %d", 1)
	case "skipnow":
		in.call("skip", 0, "")
		t.SkipNow()
	case "log":
		t.Log(op.Text)
	case "logf":
		t.Logf("%s", op.Text)
	case "lograw":
		t.Log(string(decodeHex(op.Text)))
	case "loglong":
		b := make([]byte, op.N)
		for i := range b {
			b[i] = 'a' + byte(i%26)
		}
		t.Log(string(b))
	case "helper":
		t.Helper()
	case "name":
		_ = t.Name()
	case "failed":
		v := t.Failed()
		if !in.quiet {
			r.rec.Emit("failed.read", F{"inv": in.id, "v": v, "g": in.g})
		}
	case "cleanup":
		r.mu.Lock()
		r.cleanID++
		id := r.cleanID
		r.mu.Unlock()
		body := op.Body
		if in.quiet {
			t.Cleanup(func() {})
			break
		}
		r.rec.Emit("cleanup.reg", F{"inv": in.id, "id": id, "g": in.g, "grp": in.grp})
		in := in
		if in.grp != 0 {
			c := *in
			c.grp = 0 // what the cleanup function itself registers is ordered again
			in = &c
		}
		t.Cleanup(func() {
			r.rec.Emit("cleanup.run", F{"inv": in.id, "id": id})
			r.mu.Lock()
			mine := []ctxRef{}
			for _, cr := range *in.ctxs {
				if cr.inv == in.id {
					mine = append(mine, cr)
				}
			}
			r.mu.Unlock()
			r.resample(mine, "at-cleanup")
			done := false
			defer func() { r.rec.Emit("cleanup.end", F{"inv": in.id, "id": id, "ret": done}) }()
			in.run(body)
			done = true
		})
	case "cleanupnil": // an optional hook that is nil: t.Cleanup(nil)
		t.Cleanup(nil)
	case "recover": // user code that swallows whatever its body panics with (a deferred recover() around a callback): a *T signal raised inside must still count
		func() {
			defer func() {
				if p := recover(); p != nil {
					r.rec.Emit("recovered", F{"inv": in.id, "g": in.g})
				}
			}()
			in.run(op.Body)
		}()
	case "hold": // park the next goroutine that reaches gate Text until some goroutine reaches gate Val
		setHold(op.Text, op.Val)
	case "goexit": // ends the goroutine without panicking (what testing.T.FailNow of an outer test does)
		runtime.Goexit()
	case "ctx":
		c := t.Context()
		if op.Val == "changes" { // a goroutine polling Context(): record only when it is handed another one than last time
			if c == in.lastCtx {
				break
			}
			in.lastCtx = c
		}
		in.noteCtx(c)
		f := F{"inv": in.id, "id": r.ctxID(c), "err": ctxErr(c), "where": op.Text, "g": in.g}
		if op.Var != "" && in.g == 0 {
			in.vars[op.Var] = c
		}
		r.rec.Emit("ctx", f)
	case "ctxlive": // a property that relies on its context being live while it runs
		c := t.Context()
		in.noteCtx(c)
		r.rec.Emit("ctx", F{"inv": in.id, "id": r.ctxID(c), "err": ctxErr(c), "where": "live"})
		if c.Err() != nil {
			in.call("fatalf", 3, "context of a running test case is already done")
			t.Fatalf("context of a running test case is already done")
		}
	case "ctxcheck": // re-sample a stored context
		if c, ok := in.vars[op.Var].(context.Context); ok {
			r.rec.Emit("ctx", F{"inv": in.id, "id": r.ctxID(c), "err": ctxErr(c), "where": op.Text})
		}
	case "go":
		var wg sync.WaitGroup
		n := op.N
		if n == 0 {
			n = 1
		}
		start := make(chan struct{})
		r.mu.Lock()
		r.goSeq++
		grp := r.goSeq
		r.mu.Unlock()
		if op.Val != "" {
			r.setBarrier(op.Val, n)
			defer r.setBarrier("", 0)
		}
		for g := 0; g < n; g++ {
			wg.Add(1)
			g := g
			go func() {
				defer wg.Done()
				sub := &inv{r: r, t: t, id: in.id, top: in.top, vars: in.vars, ctxs: in.ctxs, kept: in.kept, g: g + 1, grp: grp, quiet: op.Text == "quiet"}
				<-start
				for rep := 0; rep < 1+op.Ms; rep++ {
					sub.run(op.Body)
				}
			}()
		}
		close(start)
		wg.Wait()
	case "goasync": // goroutines that keep running while the property goes on (and while its cleanups run); "join" waits for them
		n := op.N
		if n == 0 {
			n = 1
		}
		wg := &sync.WaitGroup{}
		r.mu.Lock()
		r.async = append(r.async, wg)
		r.mu.Unlock()
		for g := 0; g < n; g++ {
			wg.Add(1)
			g := g
			go func() {
				defer wg.Done()
				sub := &inv{r: r, t: t, id: in.id, top: in.top, vars: in.vars, ctxs: in.ctxs, kept: in.kept, g: g + 1, quiet: op.Text == "quiet"}
				for rep := 0; rep < 1+op.Ms; rep++ {
					sub.run(op.Body)
				}
			}()
		}
	case "join":
		r.mu.Lock()
		ws := r.async
		r.async = nil
		r.mu.Unlock()
		for _, wg := range ws {
			wg.Wait()
		}
	case "share": // make a drawn value visible to Custom generator functions of this scenario
		r.mu.Lock()
		r.shared[op.Var] = in.vars[op.Var]
		r.mu.Unlock()
	case "sleepgen": // a slow search: only invocations of the random generation phase are slow (the phase is known from the engine's hook)
		if CurPhase.Load() == "gen" {
			time.Sleep(time.Duration(op.Ms) * time.Millisecond)
		}
	case "sleepfirst": // a slow search phase: only the first N invocations of the scenario are slow
		if in.top <= op.N {
			time.Sleep(time.Duration(op.Ms) * time.Millisecond)
		}
	case "sleep":
		time.Sleep(time.Duration(op.Ms) * time.Millisecond)
	case "nth": // body on the N-th execution of this op within the current run, else the other branch: a property that is NOT a function of its draws
		r.mu.Lock()
		r.counter["nth/"+op.Text]++
		c := r.counter["nth/"+op.Text]
		r.mu.Unlock()
		if c == op.N {
			in.run(op.Body)
		} else {
			in.run(op.Else)
		}
	case "count": // counter-dependent branch: body on the N-th execution of this op (per scenario, per invocation kind it is deterministic only if draws drive it)
		key := fmt.Sprintf("%d/%s", in.id, op.Text)
		r.mu.Lock()
		r.counter[key]++
		c := r.counter[key]
		r.mu.Unlock()
		if c == op.N {
			in.run(op.Body)
		} else {
			in.run(op.Else)
		}
	case "repeat":
		actions := map[string]func(*rapid.T){}
		for name, body := range op.Actions {
			name, body := name, body
			actions[name] = func(t2 *rapid.T) {
				r.rec.Emit("draw", F{"inv": in.id, "label": "action", "val": fmtVal(name), "dval": fmtVal(name), "gen": "SampledFrom(actions)"}) // Repeat's own draw of the action
				r.rec.Emit("sm.action.begin", F{"inv": in.id, "name": name})
				done := false
				defer func() { r.rec.Emit("sm.action.end", F{"inv": in.id, "name": name, "ret": done, "last": in.last}) }()
				sub := &inv{r: r, t: t2, id: in.id, top: in.top, vars: in.vars, ctxs: in.ctxs, kept: in.kept}
				defer func() { in.last = sub.last }()
				sub.last = ""
				sub.run(body)
				done = true
			}
		}
		if op.Inv != nil {
			body := op.Inv
			actions[""] = func(t2 *rapid.T) {
				r.rec.Emit("sm.inv.begin", F{"inv": in.id})
				done := false
				defer func() { r.rec.Emit("sm.inv.end", F{"inv": in.id, "ret": done}) }()
				sub := &inv{r: r, t: t2, id: in.id, top: in.top, vars: in.vars, ctxs: in.ctxs, kept: in.kept}
				defer func() { in.last = sub.last }()
				sub.run(body)
				done = true
			}
		}
		names := []string{}
		for name := range op.Actions {
			names = append(names, name)
		}
		sort.Strings(names)
		if op.Val == "struct" {
			// the state machine as a struct: rapid.StateMachineActions collects its exported methods of the form Name(*T) / Name(TB), Check is the invariant.
			// The struct also has methods that are NOT actions (unexported, other signatures); they report themselves if they are ever called.
			m := &smStruct{fns: actions, rec: r.rec, inv: in.id}
			for _, k := range []string{"ActA", "ActB", "ActC", "ActD"} {
				if actions[k] == nil {
					k := k
					actions[k] = func(t2 *rapid.T) { // a method without a scripted body: skips at once
						r.rec.Emit("draw", F{"inv": in.id, "label": "action", "val": fmtVal(k), "dval": fmtVal(k), "gen": "SampledFrom(actions)"})
						r.rec.Emit("sm.action.begin", F{"inv": in.id, "name": k})
						in.last = "skip"
						defer func() { r.rec.Emit("sm.action.end", F{"inv": in.id, "name": k, "ret": false, "last": "skip"}) }()
						t2.Skip("not scripted")
					}
				}
			}
			names = []string{"ActA", "ActB", "ActC", "ActD"}
			r.rec.Emit("sm.begin", F{"inv": in.id, "n": 4, "hasinv": true, "actions": names, "struct": true})
			smdone := false
			defer func() { r.rec.Emit("sm.end", F{"inv": in.id, "ret": smdone}) }()
			t.Repeat(rapid.StateMachineActions(m))
			smdone = true
			break
		}
		for phase := 0; phase <= op.N; phase++ { // N > 0: the SAME map is handed to Repeat again (several phases of one test case sharing their actions)
			func() {
				r.rec.Emit("sm.begin", F{"inv": in.id, "n": len(op.Actions), "hasinv": op.Inv != nil, "actions": names, "phase": phase, "failedbefore": t.Failed()})
				smdone := false
				defer func() { r.rec.Emit("sm.end", F{"inv": in.id, "ret": smdone}) }()
				t.Repeat(actions)
				smdone = true
			}()
		}
	case "setvar":
		in.vars[op.Var] = parseItem(op.Val)
	case "incvar":
		v, _ := in.vars[op.Var].(int)
		in.vars[op.Var] = v + 1
	default:
		panic("unknown op " + op.Op)
	}
}

// smStruct is a state machine given as a struct (see the "repeat" op with val "struct").
type smStruct struct {
	fns map[string]func(*rapid.T)
	rec *Recorder
	inv int
}

func (m *smStruct) ActA(t *rapid.T) { m.fns["ActA"](t) }
func (m *smStruct) ActB(t *rapid.T) { m.fns["ActB"](t) }
func (m *smStruct) ActC(t rapid.TB) { m.fns["ActC"](t.(*rapid.T)) } // the documented TB form of an action
func (m *smStruct) ActD(t rapid.TB) { m.fns["ActD"](t.(*rapid.T)) } // (two of them: each name must stay bound to its own method)
func (m *smStruct) Check(t *rapid.T) {
	if f := m.fns[""]; f != nil {
		f(t)
		return
	}
	m.rec.Emit("sm.inv.begin", F{"inv": m.inv})
	m.rec.Emit("sm.inv.end", F{"inv": m.inv, "ret": true})
}

// not actions: wrong signatures, and an unexported method
func (m *smStruct) Reset()                 { m.notAnAction("Reset") }
func (m *smStruct) Size(t *rapid.T) int    { m.notAnAction("Size"); return 0 }
func (m *smStruct) With(t *rapid.T, k int) { m.notAnAction("With") }
func (m *smStruct) hidden(t *rapid.T)      { m.notAnAction("hidden") }
func (m *smStruct) Plain(t *testing.T)     { m.notAnAction("Plain") }
func (m *smStruct) notAnAction(name string) {
	m.rec.Emit("sm.action.begin", F{"inv": m.inv, "name": name})
	m.rec.Emit("sm.action.end", F{"inv": m.inv, "name": name, "ret": true, "last": ""})
}

// customShared is a Custom generator function that draws as many values as the shared variable says -- none at all for 0,
// which the library answers with its "group did not use any data" assertion (a misuse of Custom, deterministic in the draws).
func (r *Runner) customShared(t *rapid.T, name string) any {
	r.mu.Lock()
	n := 0
	if v, ok := toBig(r.shared[name]); ok {
		n = int(v.Int64())
	}
	r.mu.Unlock()
	if n == 0 {
		// returning without drawing is a misuse of Custom that the library answers with a panic: this invocation falsifies the property
		r.rec.Emit("call", F{"inv": r.curTop, "m": "panic", "site": 9, "msg": "", "g": 0})
	}
	out := make([]any, 0, n)
	for k := 0; k < n; k++ {
		out = append(out, rapid.Int8().Draw(t, "e"))
	}
	return out
}

// customBody runs the script of a Custom generator function on its own *T.
func (r *Runner) customBody(t *rapid.T, body []Op, ret *Built) any {
	r.mu.Lock()
	r.invSeq++
	if r.curCtxs == nil {
		r.curCtxs = &[]ctxRef{}
	}
	in := &inv{r: r, t: t, id: r.invSeq, top: r.curTop, vars: map[string]any{}, ctxs: r.curCtxs}
	r.mu.Unlock()
	r.rec.Emit("cinv.begin", F{"inv": in.id})
	done := false
	defer func() { r.rec.Emit("cinv.end", F{"inv": in.id, "ret": done, "last": in.last}) }()
	in.run(body)
	v := ret.G.Draw(t, "ret")
	done = true
	return v
}

func toBig(v any) (*big.Int, bool) {
	if i, ok := AsInt64(v); ok {
		return big.NewInt(i), true
	}
	if u, ok := AsUint64(v); ok {
		return new(big.Int).SetUint64(u), true
	}
	return nil, false
}

func (in *inv) eval(c *Cond) bool {
	v := in.vars[c.Var]
	switch c.Cmp {
	case "lenge", "lenlt":
		n := reflect.ValueOf(v).Len()
		if s, ok := v.(string); ok {
			n = len([]rune(s))
		}
		k := parseItem(c.Val).(int)
		if c.Cmp == "lenge" {
			return n >= k
		}
		return n < k
	case "true":
		b, _ := v.(bool)
		return b
	case "anyge": // some element (slice) or value (map) is >= val
		k, _ := new(big.Int).SetString(c.Val, 10)
		rv := reflect.ValueOf(v)
		hit := func(e reflect.Value) bool {
			if e.Kind() == reflect.Interface {
				e = e.Elem()
			}
			if !e.IsValid() || !e.CanInterface() {
				return false
			}
			x, ok := toBig(e.Interface())
			return ok && x.Cmp(k) >= 0
		}
		switch rv.Kind() {
		case reflect.Map:
			it := rv.MapRange()
			for it.Next() {
				if hit(it.Value()) {
					return true
				}
			}
		case reflect.Slice, reflect.Array:
			for j := 0; j < rv.Len(); j++ {
				if hit(rv.Index(j)) {
					return true
				}
			}
		}
		return false
	}
	a, ok := toBig(v)
	if !ok {
		panic(fmt.Sprintf("condition on non-integer %T", v))
	}
	b, ok2 := new(big.Int).SetString(c.Val, 10)
	if !ok2 {
		panic("bad condition value " + c.Val)
	}
	switch c.Cmp {
	case "ge":
		return a.Cmp(b) >= 0
	case "le":
		return a.Cmp(b) <= 0
	case "gt":
		return a.Cmp(b) > 0
	case "lt":
		return a.Cmp(b) < 0
	case "eq":
		return a.Cmp(b) == 0
	case "ne":
		return a.Cmp(b) != 0
	case "mod2":
		return new(big.Int).And(a, big.NewInt(1)).Cmp(b) == 0
	}
	panic("unknown cmp " + c.Cmp)
}

func decodeHex(s string) []byte {
	out := make([]byte, len(s)/2)
	for i := range out {
		fmt.Sscanf(s[2*i:2*i+2], "%02x", &out[i])
	}
	return out
}

// Failure sites: distinct Go functions, i.e. distinct call stacks.
var sites = []func(*rapid.T, *Op){site0, site1, site2, site3}

func failAt(t *rapid.T, op *Op, tag string) {
	switch op.Op {
	case "fatalf":
		t.Fatalf("fatal at %s %s", tag, op.Text)
	case "fatal":
		t.Fatal("fatal at", tag, op.Text)
	case "failnow":
		t.FailNow()
	case "panic":
		switch op.Val {
		case "error":
			panic(customErr{"boom " + tag})
		case "struct":
			panic(customPanic{"boom " + tag})
		case "int":
			panic(42)
		case "data":
			panic("boom " + tag + " " + op.Text)
		case "dataerr":
			panic(fmt.Errorf("boom %s %s", tag, op.Text))
		default:
			panic("boom " + tag)
		}
	case "rterr":
		switch op.Val {
		case "indexv":
			s := make([]int, 3)
			_ = s[op.N]
		case "nilmap":
			var m map[string]int
			m["x"] = 1
		case "index":
			var s []int
			_ = s[len(tag)]
		default:
			z := len(tag) - 2
			_ = 1 / z
		}
	}
}

//go:noinline
func site0(t *rapid.T, op *Op) { failAt(t, op, "s0") }

//go:noinline
func site1(t *rapid.T, op *Op) { failAt(t, op, "s1") }

//go:noinline
func site2(t *rapid.T, op *Op) { failAt(t, op, "s2") }

//go:noinline
func site3(t *rapid.T, op *Op) { failAt(t, op, "s3") }
