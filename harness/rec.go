package harness

// Event recorder: every observable step of a scenario becomes one ND-JSON line.
// Hook events (build tag verif) arrive through rapid.VerifSetSink, harness events
// through Emit.  All events of a scenario are totally ordered by seq, which is
// taken under the recorder's mutex.

import (
	"bufio"
	"encoding/json"
	"fmt"
	"hash/fnv"
	"math"
	"os"
	"strconv"
	"sync"
	"sync/atomic"
	"time"

	"pgregory.net/rapid"
)

type F = map[string]any

type Recorder struct {
	mu      sync.Mutex
	w       *bufio.Writer
	f       *os.File
	seq     int
	paused  int
	want    map[string]bool // nil = everything
	Count   int
	goid    func() int
	lastErr error
}

var Rec *Recorder

// Watchdog: an invocation of a scripted property takes micro- to milliseconds; one that is still running after
// HangAfter has hung inside the library (the properties themselves never loop).  The trace is closed in a
// well-formed way (hang, scen.end, harness.done) and the process exits, since the stuck goroutine cannot be stopped.
// (Since a hang can also happen between invocations -- in T.cleanup, in the shrinker -- the watchdog looks at the engine call as a whole:
// while one is in progress, HangAfter without a single event recorded or offered for recording means nothing is moving.)
var (
	HangAfter    = 90 * time.Second
	busy         atomic.Int32 // engine calls / invocations in progress
	lastProgress atomic.Int64 // unix nanoseconds of the last sign of life
	curScenario  atomic.Value
)

func progress() { lastProgress.Store(time.Now().UnixNano()) }
func InvStart() { progress(); busy.Add(1) }
func InvStop()  { progress(); busy.Add(-1) }

func StartWatchdog(r *Recorder) {
	go func() {
		for {
			time.Sleep(time.Second)
			s := lastProgress.Load()
			if busy.Load() > 0 && s != 0 && time.Since(time.Unix(0, s)) > HangAfter {
				id, _ := curScenario.Load().(string)
				r.forceEmit("hang", F{"scenario": id, "seconds": int(time.Since(time.Unix(0, s)).Seconds())})
				r.forceEmit("scen.end", F{"id": id, "hung": true})
				r.forceEmit("harness.done", F{"hung": true})
				_ = r.Close()
				os.Exit(3)
			}
		}
	}()
}

// forceEmit records an event regardless of filters and pauses.
func (r *Recorder) forceEmit(ev string, f F) {
	r.mu.Lock()
	defer r.mu.Unlock()
	r.seq++
	out := F{"ev": ev, "seq": r.seq}
	for k, v := range f {
		out[k] = v
	}
	b, _ := json.Marshal(out)
	r.w.Write(b)
	r.w.WriteByte('\n')
}

func OpenRecorder(path string, want []string) (*Recorder, error) {
	f, err := os.Create(path)
	if err != nil {
		return nil, err
	}
	r := &Recorder{f: f, w: bufio.NewWriterSize(f, 1<<20)}
	if len(want) > 0 {
		r.want = map[string]bool{}
		for _, w := range want {
			r.want[w] = true
		}
	}
	return r, nil
}

func (r *Recorder) Close() error {
	r.mu.Lock()
	defer r.mu.Unlock()
	if err := r.w.Flush(); err != nil {
		return err
	}
	return r.f.Close()
}

func (r *Recorder) Pause()  { r.mu.Lock(); r.paused++; r.mu.Unlock() }
func (r *Recorder) Resume() { r.mu.Lock(); r.paused--; r.mu.Unlock() }

func (r *Recorder) Wants(ev string) bool {
	return r.want == nil || r.want[ev]
}

func (r *Recorder) Emit(ev string, f F) {
	if r == nil {
		return
	}
	progress()
	r.mu.Lock()
	defer r.mu.Unlock()
	if r.paused > 0 || !r.Wants(ev) {
		return
	}
	r.seq++
	out := F{"ev": ev, "seq": r.seq}
	for k, v := range f {
		out[k] = conv(v)
	}
	b, err := json.Marshal(out)
	if err != nil {
		r.lastErr = err
		b, _ = json.Marshal(F{"ev": "harness.error", "seq": r.seq, "msg": err.Error()})
	}
	r.w.Write(b)
	r.w.WriteByte('\n')
	r.Count++
}

// EmitRaw records an event whose fields are already in trace form (spliced in from another process's trace).
func (r *Recorder) EmitRaw(ev string, f F) {
	r.mu.Lock()
	defer r.mu.Unlock()
	if r.paused > 0 {
		return
	}
	r.seq++
	out := F{"ev": ev, "seq": r.seq}
	for k, v := range f {
		out[k] = v
	}
	b, err := json.Marshal(out)
	if err != nil {
		return
	}
	r.w.Write(b)
	r.w.WriteByte('\n')
	r.Count++
}

// W encodes a 64-bit word for TLC (32-bit integers): decimal string for equality,
// four 16-bit limbs (most significant first) for order and mask arithmetic, and
// the value itself when it is small.
func W(u uint64) F {
	i := -1
	if u < 1<<30 {
		i = int(u)
	}
	return F{"d": strconv.FormatUint(u, 10), "l": []int{int(u >> 48), int(u >> 32 & 0xffff), int(u >> 16 & 0xffff), int(u & 0xffff)}, "i": i}
}

// WI encodes a signed 64-bit integer order-preservingly (offset binary).
func WI(v int64) F {
	f := W(uint64(v) ^ (1 << 63))
	f["d"] = strconv.FormatInt(v, 10)
	f["i"] = -1
	if v >= 0 && v < 1<<30 {
		f["i"] = int(v)
	}
	return f
}

// WF encodes a float64 by an order-preserving 64-bit key; class tells finite/inf/nan.
func WF(x float64) F {
	b := math.Float64bits(x)
	var key uint64
	if b>>63 == 0 {
		key = b | 1<<63
	} else {
		key = ^b
	}
	if x == 0 { // +0 and -0 are the same number
		key = 1 << 63
	}
	f := W(key)
	f["d"] = strconv.FormatFloat(x, 'g', -1, 64)
	f["i"] = -1
	switch {
	case math.IsNaN(x):
		f["class"] = "nan"
	case math.IsInf(x, 0):
		f["class"] = "inf"
	default:
		f["class"] = "finite"
	}
	return f
}

func Words(buf []uint64) []any {
	out := make([]any, len(buf))
	for i, u := range buf {
		out[i] = W(u)
	}
	return out
}

func hashStr(s string) string {
	h := fnv.New64a()
	h.Write([]byte(s))
	return fmt.Sprintf("%016x", h.Sum64())
}

// Digest of a formatted value: the text itself when short, a hash otherwise.
func Digest(s string) string {
	if len(s) <= 120 {
		return s
	}
	return "fnv:" + hashStr(s) + ":" + strconv.Itoa(len(s))
}

func BufID(buf []uint64) string {
	h := fnv.New64a()
	var b [8]byte
	for _, u := range buf {
		for i := 0; i < 8; i++ {
			b[i] = byte(u >> (8 * i))
		}
		h.Write(b[:])
	}
	return fmt.Sprintf("b%d:%016x", len(buf), h.Sum64())
}

func conv(v any) any {
	switch x := v.(type) {
	case uint64:
		return W(x)
	case []uint64:
		return F{"id": BufID(x), "n": len(x), "w": Words(x)}
	case float64:
		return strconv.FormatFloat(x, 'g', -1, 64)
	case []byte:
		out := make([]int, len(x))
		for i, b := range x {
			out[i] = int(b)
		}
		return out
	case []rapid.VerifGroup:
		out := make([]any, len(x))
		for i, g := range x {
			out[i] = F{"begin": g.Begin, "end": g.End, "label": g.Label, "standalone": g.Standalone, "discard": g.Discard}
		}
		return out
	case []any:
		if len(x) == 3 { // verifErr: class, message, traceback
			if c, ok := x[0].(string); ok {
				if m, ok := x[1].(string); ok {
					if tb, ok := x[2].(string); ok {
						site := ""
						if c != "none" {
							site = "tb:" + hashStr(tb)
						}
						return F{"class": c, "msg": Digest(m), "site": site}
					}
				}
			}
		}
		out := make([]any, len(x))
		for i, e := range x {
			out[i] = conv(e)
		}
		return out
	default:
		return v
	}
}

// InstallSink routes hook events into the recorder.
func InstallSink(r *Recorder, onEvent func(ev string, kv []any)) {
	rapid.VerifSetSink(func(ev string, kv []any) {
		progress()
		if onEvent != nil {
			onEvent(ev, kv)
		}
		ev = "h." + ev
		if !r.Wants(ev) {
			return
		}
		if ev == "h.phase" && r.want != nil && (r.want["no-gen-phase"] || r.want["no-shrink-phase"]) {
			for i := 0; i+1 < len(kv); i += 2 {
				if kv[i] == "kind" && ((kv[i+1] == "gen" && r.want["no-gen-phase"]) || ((kv[i+1] == "shrink1" || kv[i+1] == "shrink2") && r.want["no-shrink-phase"])) {
					return // phases that are not of interest to this check (they would dominate the trace)
				}
			}
		}
		f := F{}
		for i := 0; i+1 < len(kv); i += 2 {
			k := kv[i].(string)
			if ev == "h.phase" && k == "best" {
				continue // the current best is known from shrink.begin / accept(new); do not repeat it per attempt
			}
			f[k] = kv[i+1]
		}
		r.Emit(ev, f)
	})
}
