package harness

// C18: reachability of every value of small ranges, constructive reachability of
// chosen values of wide ranges, edge hits within a few thousand PRNG draws, and
// freshness of seeds.  Values are driven through the public MakeFuzz entry on
// structured inputs (sign coin x bias word x bits word); whatever the structured
// enumeration misses is searched for with PRNG draws before it counts as
// unreachable.

import (
	"encoding/binary"
	"encoding/json"
	"fmt"
	"math"
	"math/bits"
	"os"
	"os/exec"
	"path/filepath"
	"runtime"
	"strconv"
	"strings"
	"sync"
	"sync/atomic"
	"testing"

	"pgregory.net/rapid"
)

type ReachScenario struct {
	ID         string   `json:"id"`
	Mode       string   `json:"mode"` // small | wide | edge | fresh
	Gen        *GenSpec `json:"gen"`
	Targets    []string `json:"targets"`    // wide: values to reach (decimal)
	Fallback   int      `json:"fallback"`   // PRNG draws to try for what the structured inputs miss
	Draws      int      `json:"draws"`      // edge: number of PRNG draws
	K          int      `json:"k"`          // fresh: number of Check calls / child processes
	Stale      bool     `json:"stale"`      // fresh: an ignored fail file is present
	Procs      bool     `json:"procs"`      // fresh: separate processes
	NoAutoSeed bool     `json:"noAutoSeed"` // fresh: child processes run with GODEBUG=randautoseed=0
	Reuse      bool     `json:"reuse"`      // fresh: ONE function made by MakeCheck is run K times
	Parallel   int      `json:"parallel"`   // fresh: this many Check calls start at the same moment on their own goroutines, K rounds
}

func wordsBytes(ws ...uint64) []byte {
	out := make([]byte, 8*len(ws))
	for i, w := range ws {
		binary.LittleEndian.PutUint64(out[8*i:], w)
	}
	return out
}

// biasWords: 53-bit words that make the biased-integer decoder pick each width n = 1..maxN
// (geometric with p = 1/(m+1), m = max(8, (bitlen+48)/7)); three words per n around the predicted place.
func biasWords(bitlen int, maxN int) []uint64 {
	m := math.Max(8, (float64(bitlen)+48)/7)
	p := 1 / (m + 1)
	var out []uint64
	for n := 1; n <= maxN; n++ {
		lo := 1 - math.Pow(1-p, float64(n-1))
		hi := 1 - math.Pow(1-p, float64(n))
		for _, f := range []float64{lo + (hi-lo)*0.01, (lo + hi) / 2, hi - (hi-lo)*0.01} {
			w := uint64(f * (1 << 53))
			out = append(out, w)
		}
	}
	return out
}

const coinHi = uint64(1)<<53 - 1

func valKey(v any) string {
	if i, ok := AsInt64(v); ok {
		return strconv.FormatInt(i, 10)
	}
	if u, ok := AsUint64(v); ok {
		return strconv.FormatUint(u, 10)
	}
	return fmt.Sprint(v)
}

func reachMode(t *testing.T, rec *Recorder) {
	data, err := os.ReadFile(*fIn)
	if err != nil {
		t.Fatal(err)
	}
	r := NewRunner(rec)
	for _, line := range strings.Split(string(data), "\n") {
		if strings.TrimSpace(line) == "" {
			continue
		}
		var sc ReachScenario
		if err := json.Unmarshal([]byte(line), &sc); err != nil {
			t.Fatal(err)
		}
		rec.Emit("scen.begin", F{"id": sc.ID, "mode": sc.Mode, "mayfail": false})
		switch sc.Mode {
		case "small", "wide":
			reachInts(t, rec, r, &sc)
		case "floats":
			reachFloats(rec, r, &sc)
		case "edge":
			edgeHits(rec, r, &sc)
		case "fresh":
			freshSeeds(t, rec, &sc)
		}
		rec.Emit("scen.end", F{"id": sc.ID})
	}
}

func specRange(s *GenSpec) (signed bool, lo, hi int64, ulo, uhi uint64) {
	base, variant, _ := splitIntKind(s.K)
	ki := IntKinds[base]
	if ki.signed {
		lo, hi = ki.smin, ki.smax
		if variant == "Min" || variant == "Range" {
			lo, _ = strconv.ParseInt(s.Min, 10, 64)
		}
		if variant == "Max" || variant == "Range" {
			hi, _ = strconv.ParseInt(s.Max, 10, 64)
		}
		return true, lo, hi, 0, 0
	}
	ulo, uhi = 0, ki.umax
	if variant == "Min" || variant == "Range" {
		ulo, _ = strconv.ParseUint(s.Min, 10, 64)
	}
	if variant == "Max" || variant == "Range" {
		uhi, _ = strconv.ParseUint(s.Max, 10, 64)
	}
	return false, 0, 0, ulo, uhi
}

// safeBuild constructs the generator of a scenario; a constructor that panics on parameters its documentation allows
// is recorded (the generator cannot produce a single value of its contract), not a reason for the harness to die.
func safeBuild(rec *Recorder, r *Runner, sc *ReachScenario) (b *Built) {
	defer func() {
		if p := recover(); p != nil {
			b = nil
			rec.Resume()
			rec.Emit("genpanic", F{"gen": sc.Gen.K, "min": sc.Gen.Min, "max": sc.Gen.Max, "msg": Digest(fmt.Sprint(p))})
		}
	}()
	return (&GenEnv{cache: map[*GenSpec]*Built{}, run: r}).Build(sc.Gen)
}

func reachInts(t *testing.T, rec *Recorder, r *Runner, sc *ReachScenario) {
	b := safeBuild(rec, r, sc)
	if b == nil {
		return
	}
	reached := map[string]bool{}
	fz := rapid.MakeFuzz(func(rt *rapid.T) { reached[valKey(b.G.Draw(rt, "v"))] = true })
	signed, lo, hi, ulo, uhi := specRange(sc.Gen)
	var span uint64
	if signed {
		span = uint64(hi) - uint64(lo)
	} else {
		span = uhi - ulo
	}
	bitlen := bits.Len64(span)
	calls := 0
	rec.Pause()
	run := func(ws ...uint64) {
		calls++
		fz(t, wordsBytes(append(ws, 0, 0, 0, 0, 0, 0, 0, 0)...)) // zero padding: a rejected word is followed by an accepted one, never an overrun
	}
	want := []string{}
	if sc.Mode == "small" {
		if signed {
			for v := lo; v <= hi; v++ {
				want = append(want, strconv.FormatInt(v, 10))
			}
		} else {
			for v := ulo; v <= uhi; v++ {
				want = append(want, strconv.FormatUint(v, 10))
			}
		}
		bw := biasWords(bitlen, 12)
		for _, coin := range []uint64{0, coinHi} {
			for _, bias := range bw {
				for w := uint64(0); w < 256; w++ {
					if signed {
						run(coin, bias, w)
					} else {
						run(bias, w)
					}
				}
			}
		}
	} else {
		want = sc.Targets
		for _, tv := range sc.Targets {
			// the model's witness: width n = bitlen(distance from the span's origin), bits word = that distance, plus the sign coin
			var cands [][]uint64
			if signed {
				v, _ := strconv.ParseInt(tv, 10, 64)
				var d uint64
				var coin uint64
				switch {
				case lo >= 0:
					d, coin = uint64(v)-uint64(lo), 0
				case hi <= 0:
					d, coin = uint64(-v)-uint64(-hi), coinHi
				case v < 0:
					d, coin = uint64(-v)-1, coinHi
				default:
					d, coin = uint64(v), 0
				}
				sub := span
				if lo < 0 && hi > 0 {
					if v < 0 {
						sub = uint64(-lo) - 1
					} else {
						sub = uint64(hi)
					}
				}
				n := bits.Len64(d)
				if n == 0 {
					n = 1
				}
				for _, bias := range biasWords(bits.Len64(sub), 70)[3*(n-1) : 3*n] {
					cands = append(cands, []uint64{coin, bias, d}, []uint64{0, bias, d}, []uint64{coinHi, bias, d})
				}
			} else {
				v, _ := strconv.ParseUint(tv, 10, 64)
				d := v - ulo
				n := bits.Len64(d)
				if n == 0 {
					n = 1
				}
				for _, bias := range biasWords(bitlen, 70)[3*(n-1) : 3*n] {
					cands = append(cands, []uint64{bias, d})
				}
			}
			for _, c := range cands {
				run(c...)
			}
		}
	}
	missing := []string{}
	for _, w := range want {
		if !reached[w] {
			missing = append(missing, w)
		}
	}
	structuredMissing := len(missing)
	// behavioural fall-back: PRNG draws
	tried := 0
	for i := 0; len(missing) > 0 && i < sc.Fallback; i++ {
		tried++
		reached[valKey(b.G.Example(i))] = true
		if i%64 == 63 || i == sc.Fallback-1 {
			m2 := missing[:0]
			for _, w := range missing {
				if !reached[w] {
					m2 = append(m2, w)
				}
			}
			missing = m2
		}
	}
	rec.Resume()
	if len(missing) > 20 {
		missing = missing[:20]
	}
	rec.Emit("reach", F{"gen": sc.Gen.K, "min": sc.Gen.Min, "max": sc.Gen.Max, "want": len(want), "missing": missing, "calls": calls,
		"structuredMissing": structuredMissing, "fallbackDraws": tried})
}

// reachFloats: a float range of a few dozen adjacent values (the harness enumerates them with Nextafter): every one of them can be drawn.
func reachFloats(rec *Recorder, r *Runner, sc *ReachScenario) {
	b := safeBuild(rec, r, sc)
	if b == nil {
		return
	}
	is32 := strings.HasPrefix(sc.Gen.K, "Float32")
	lo, hi := parseFloat(sc.Gen.Min), parseFloat(sc.Gen.Max)
	key := func(f float64) string {
		if is32 {
			return fmt.Sprintf("%08x", math.Float32bits(float32(f)))
		}
		return fmt.Sprintf("%016x", math.Float64bits(f))
	}
	want := []string{}
	for f, n := lo, 0; n < 4096; n++ {
		want = append(want, key(f))
		if f >= hi {
			break
		}
		if is32 {
			f = float64(math.Nextafter32(float32(f), float32(math.Inf(1))))
		} else {
			f = math.Nextafter(f, math.Inf(1))
		}
	}
	reached := map[string]bool{}
	rec.Pause()
	tried := 0
	for i := 0; i < sc.Fallback && len(reached) < len(want); i++ {
		tried++
		v := b.G.Example(i)
		switch x := v.(type) {
		case float64:
			reached[key(x)] = true
		case float32:
			reached[key(float64(x))] = true
		}
	}
	rec.Resume()
	missing := []string{}
	for _, w := range want {
		if !reached[w] && len(missing) < 20 {
			missing = append(missing, w)
		}
	}
	rec.Emit("reach", F{"gen": sc.Gen.K, "min": sc.Gen.Min, "max": sc.Gen.Max, "want": len(want), "missing": missing, "calls": 0,
		"structuredMissing": len(missing), "fallbackDraws": tried})
}

func edgeHits(rec *Recorder, r *Runner, sc *ReachScenario) {
	b := safeBuild(rec, r, sc)
	if b == nil {
		return
	}
	rec.Pause()
	first := map[string]int{}
	hit := func(name string, i int) {
		if _, ok := first[name]; !ok {
			first[name] = i
		}
	}
	var isFloat, zeroIn bool
	for i := 0; i < sc.Draws && len(first) < 3; i++ {
		v := b.G.Example(i)
		c := b.Check(v)
		if c["c"] == "int" || c["c"] == "float" {
			isFloat = c["c"] == "float"
			vl, mn, mx := c["v"].(F)["l"].([]int), c["min"].(F)["l"].([]int), c["max"].(F)["l"].([]int)
			eq := func(a, b []int) bool { return a[0] == b[0] && a[1] == b[1] && a[2] == b[2] && a[3] == b[3] }
			zero := []int{0x8000, 0, 0, 0}
			if c["c"] == "int" {
				if _, ok := AsUint64(v); ok {
					zero = []int{0, 0, 0, 0}
				}
			}
			le := func(a, b []int) bool {
				for k := 0; k < 4; k++ {
					if a[k] != b[k] {
						return a[k] < b[k]
					}
				}
				return true
			}
			zeroIn = le(mn, zero) && le(zero, mx)
			if eq(vl, mn) {
				hit("min", i)
			}
			if eq(vl, mx) {
				hit("max", i)
			}
			if eq(vl, zero) {
				hit("zero", i)
			}
			if !zeroIn {
				hit("zero", -1)
			}
		}
	}
	rec.Resume()
	_, hmin := first["min"]
	_, hmax := first["max"]
	hz := false
	if i, ok := first["zero"]; ok && i >= 0 {
		hz = true
	}
	rec.Emit("edge", F{"gen": sc.Gen.K, "min": sc.Gen.Min, "max": sc.Gen.Max, "float": isFloat, "hitMin": hmin, "hitMax": hmax, "zeroIn": zeroIn, "hitZero": hz,
		"firstMin": first["min"], "firstMax": first["max"], "draws": sc.Draws})
}

func oneFreshCheck(name string) (firsts []string) {
	tb := NewRecTB(name, nil)
	tb.Run(func() {
		rapid.Check(tb, func(rt *rapid.T) {
			// an unbiased 64-bit fingerprint of the test case's stream: 64 fair bits
			var fp uint64
			for i := 0; i < 64; i++ {
				fp <<= 1
				if rapid.Bool().Draw(rt, "b") {
					fp |= 1
				}
			}
			firsts = append(firsts, strconv.FormatUint(fp, 10))
		})
	})
	return
}

func freshSeeds(t *testing.T, rec *Recorder, sc *ReachScenario) {
	orig, _ := os.Getwd()
	dir, _ := os.MkdirTemp(*fWork, "verif-fresh-")
	defer func() { _ = os.Chdir(orig); _ = os.RemoveAll(dir) }()
	_ = os.Chdir(dir)
	name := "TestFresh"
	if sc.Stale {
		p := filepath.Join("testdata", "rapid", name, name+"-stale.fail")
		_ = os.MkdirAll(filepath.Dir(p), 0o775)
		rec.Pause()
		ver := rapidVersionOf()
		rec.Resume()
		_ = os.WriteFile(p, []byte("# stale\n"+ver+"#777\n0x1\n0x2\n0x3"), 0o664) // replays to a passing test case: ignored
	}
	setFlags(map[string]string{"checks": "20", "nofailfile": "true"})
	defer setFlags()
	seeds := []string{}
	ncases, distinct := 0, 0
	rec.Pause()
	if sc.Procs {
		for k := 0; k < sc.K; k++ {
			cmd := exec.Command(os.Args[0], "-test.run", "^TestVerifChild$", "-test.timeout", "0", "-verif.child", `{"fresh":true}`)
			cmd.Dir = dir
			if sc.NoAutoSeed {
				cmd.Env = append(os.Environ(), "GODEBUG=randautoseed=0") // the process-wide math/rand source is then the same in every process
			}
			_ = cmd.Run()
			if b, err := os.ReadFile(filepath.Join(dir, "fresh.out")); err == nil {
				fs := strings.Fields(string(b))
				if len(fs) > 0 {
					seeds = append(seeds, fs[0])
				}
			}
		}
	} else if sc.Reuse {
		// a test function made once by MakeCheck and run several times (one check shared by the entries of a table, -count=2)
		var firsts []string
		f := rapid.MakeCheck(func(rt *rapid.T) {
			var fp uint64
			for i := 0; i < 64; i++ {
				fp <<= 1
				if rapid.Bool().Draw(rt, "b") {
					fp |= 1
				}
			}
			firsts = append(firsts, strconv.FormatUint(fp, 10))
		})
		for k := 0; k < sc.K; k++ {
			firsts = nil
			t.Run(fmt.Sprintf("reuse%d", k), f)
			if len(firsts) > 0 {
				seeds = append(seeds, firsts[0])
			}
		}
	} else if sc.Parallel > 0 {
		// parallel tests: several Check calls that begin at the same moment
		setFlags(map[string]string{"checks": "1", "nofailfile": "true"})
		for k := 0; k < sc.K; k++ {
			res := make([]string, sc.Parallel)
			var ready, start atomic.Int32
			var wg sync.WaitGroup
			for g := 0; g < sc.Parallel; g++ {
				wg.Add(1)
				go func(g int) {
					defer wg.Done()
					ready.Add(1)
					for start.Load() == 0 { // spin: all leave within nanoseconds of each other
					}
					if fs := oneFreshCheck(name); len(fs) > 0 {
						res[g] = fs[0]
					}
				}(g)
			}
			for int(ready.Load()) < sc.Parallel {
				runtime.Gosched()
			}
			start.Store(1)
			wg.Wait()
			for _, r := range res {
				if r != "" {
					seeds = append(seeds, r)
				}
			}
		}
	} else {
		for k := 0; k < sc.K; k++ {
			fs := oneFreshCheck(name)
			if len(fs) > 0 {
				seeds = append(seeds, fs[0])
				set := map[string]bool{}
				for _, f := range fs {
					set[f] = true
				}
				ncases, distinct = len(fs), len(set)
			}
		}
	}
	rec.Resume()
	rec.Emit("fresh", F{"seeds": seeds, "k": sc.K, "stale": sc.Stale, "procs": sc.Procs, "ncases": ncases, "distinctCases": distinct})
}

func init() {
	modes["reach"] = reachMode
}
