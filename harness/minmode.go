package harness

// C12: the real block minimizer (shrink.go minimize, through the verif hook
// VerifMinimize) against its transcription in Minimize.tla.
//   sweep: every start value u < 2^W with every threshold condition x >= k, k <= u: the result must be k;
//   calls: random start values and ARBITRARY conditions (random subsets of 0..2^8-1 of several densities and shapes),
//          each recorded as (u, set, result) and recomputed by TLC from the transcription (MinimizeTrace).

import (
	"encoding/json"
	"math/rand"
	"os"
	"sort"
	"strings"
	"testing"

	"pgregory.net/rapid"
)

type MinScenario struct {
	ID    string `json:"id"`
	W     int    `json:"w"`     // sweep width (0 = no sweep)
	Calls int    `json:"calls"` // number of recorded calls with arbitrary conditions
	Seed  int64  `json:"seed"`
}

func minimizeMode(t *testing.T, rec *Recorder) {
	data, err := os.ReadFile(*fIn)
	if err != nil {
		t.Fatal(err)
	}
	for _, line := range strings.Split(string(data), "\n") {
		if strings.TrimSpace(line) == "" {
			continue
		}
		var sc MinScenario
		if err := json.Unmarshal([]byte(line), &sc); err != nil {
			t.Fatal(err)
		}
		rec.Emit("scen.begin", F{"id": sc.ID, "mode": "minimize", "mayfail": false})
		if sc.W > 0 {
			pairs, queries := 0, 0
			mism := [][]int{}
			for u := uint64(0); u < 1<<uint(sc.W); u++ {
				for k := uint64(0); k <= u; k++ {
					pairs++
					res := rapid.VerifMinimize(u, func(x uint64) bool { queries++; return x >= k })
					if res != k && len(mism) < 20 {
						mism = append(mism, []int{int(u), int(k), int(res)})
					}
				}
			}
			rec.Emit("min.sweep", F{"w": sc.W, "pairs": pairs, "queries": queries, "mismatches": mism})
		}
		rng := rand.New(rand.NewSource(sc.Seed))
		for c := 0; c < sc.Calls; c++ {
			set := map[uint64]bool{}
			switch c % 5 {
			case 0, 1: // random subset of a random density
				p := []float64{0.05, 0.2, 0.5, 0.8, 0.97}[rng.Intn(5)]
				for x := uint64(0); x < 256; x++ {
					if rng.Float64() < p {
						set[x] = true
					}
				}
			case 2: // a few intervals
				for j := 0; j < 1+rng.Intn(3); j++ {
					a := uint64(rng.Intn(256))
					b := a + uint64(rng.Intn(64))
					for x := a; x <= b && x < 256; x++ {
						set[x] = true
					}
				}
			case 3: // residues: x % m == r, or with a bit set
				m, r := uint64(2+rng.Intn(9)), uint64(rng.Intn(4))
				bit := uint64(1) << uint(rng.Intn(8))
				for x := uint64(0); x < 256; x++ {
					if x%m == r%m || (c%2 == 0 && x&bit != 0) {
						set[x] = true
					}
				}
			default: // a threshold with holes
				k := uint64(rng.Intn(256))
				for x := k; x < 256; x++ {
					if rng.Intn(6) != 0 {
						set[x] = true
					}
				}
			}
			u := uint64(rng.Intn(256))
			if rng.Intn(8) != 0 {
				set[u] = true // the value being minimized satisfies the condition (what the shrinker guarantees); sometimes not
			}
			res := rapid.VerifMinimize(u, func(x uint64) bool { return set[x] })
			lst := make([]int, 0, len(set))
			for x := range set {
				lst = append(lst, int(x))
			}
			sort.Ints(lst)
			rec.Emit("min.call", F{"u": int(u), "set": lst, "res": int(res)})
		}
		rec.Emit("scen.end", F{"id": sc.ID})
	}
}

func init() {
	modes["minimize"] = minimizeMode
}
