CONSTANTS Workers = {1,2} Ops = {"cleanup","failed"} Variant = "code" Late = TRUE MainCtx = TRUE Recheck = TRUE
SPECIFICATION Spec
INVARIANTS NoRace CleanupOnce
PROPERTY Termination
CHECK_DEADLOCK FALSE
