SPECIFICATION Spec
CONSTANTS
 Design = "code"
 Chunks = 1
INVARIANTS AtomicVisible TmpDisjoint Saved
PROPERTY Finishes
CHECK_DEADLOCK FALSE
