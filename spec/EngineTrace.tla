---------------------------- MODULE EngineTrace ----------------------------
(* Trace specification: validates executions recorded from the real code
   (hook events h.*, harness events, recording-TB events; one ND-JSON line per
   event) against Engine.  Every event is mapped to the Engine action it is the
   linearization point of; E_X is applied, V_X accumulates in `viol`.  A trace
   file holds many scenarios; scen.begin resets.  The POSTCONDITION requires
   every line to have been consumed (high-water mark in TLC register 1), the
   invariant NoVerdictViolation requires that no obligation of the property
   under check (constant Property) was violated at any step. *)
EXTENDS Engine, Json

CONSTANTS Property     \* "C01", ... : whose verdict obligations alarm;  "ALL" = every listed obligation

Trace == ndJsonDeserialize("trace.ndjson")

VARIABLES l,        \* next line
          scen,     \* scen.begin record of the current scenario
          ffBuf,    \* stream of the fail file being tried
          topInv,   \* harness id of the property-function invocation in progress
          runlog,   \* per invocation of this run: <<kind, stream id, draws, error class, site>>
          prev,     \* summaries of the earlier runs of the scenario (cross-run properties)
          runinfo   \* run.begin record of the current run

tvars == <<l, scen, ffBuf, topInv, runlog, prev, runinfo>>
vars == <<evars, tvars>>

TLess(a, b) == ShortLexLT(a.w, b.w)

Ev == Trace[l]
Is(e) == l <= Len(Trace) /\ Trace[l].ev = e
Adv == l' = l + 1
Do(V, E) == E /\ viol' = viol \cup V

BufStream(b) == [id |-> b.id, src |-> "buf", w |-> Limbs(b)]
SeedStream(s) == [id |-> "seed:" \o s.d, src |-> "seed", w |-> <<>>]
Err(e) == [class |-> e.class, site |-> e.site, msg |-> e.msg]

Verdicts == IF Property = "ALL" THEN UNION { VerdictOf[p] : p \in DOMAIN VerdictOf } ELSE VerdictOf[Property]

NoPrev == <<>>
NoRun == [run |-> 0]

Init ==
  /\ l = 1 /\ scen = [id |-> ""] /\ ffBuf = NoStream /\ topInv = 0 /\ runlog = <<>> /\ prev = NoPrev /\ runinfo = NoRun
  /\ pc = "idle" /\ cfg = [checks |-> 0, base |-> Zero, nofailfile |-> FALSE, failfile |-> "", expectFF |-> {}, mustFF |-> {}, deadline |-> FALSE]
  /\ ffq = <<>> /\ ff = "" /\ pend = "" /\ valid = 0 /\ invalid = 0 /\ seed = Zero /\ cur = NoCur /\ flag = FALSE
  /\ e1 = NoErr /\ e2 = NoErr /\ buf = NoStream /\ best = NoStream /\ orig = NoStream /\ sErr = NoErr /\ cache = {}
  /\ shrinks = 0 /\ rep = NoRep /\ tbFailed = FALSE /\ tbFailNow = FALSE /\ viol = {}
  /\ mon = [anySig |-> FALSE, realFail |-> FALSE, firstObs |-> NoObs, finalObs |-> NoObs,
            tbDraws |-> <<>>, gens |-> 0, passes |-> 0, fromFF |-> FALSE, failSeed |-> Zero,
            iters |-> 0, saved |-> NoStream, savedFile |-> "", finalRan |-> FALSE, invs |-> 0,
            firstKind |-> "none", firstStream |-> NoStream, failDraws |-> <<>>, early |-> FALSE, ffStreams |-> {}, lastClass |-> "none"]

EUnch == UNCHANGED <<pc, cfg, ffq, ff, pend, valid, invalid, seed, cur, flag, e1, e2, buf, best, orig, sErr, cache, shrinks, rep, tbFailed, tbFailNow, mon>>

---------------------------------------------------------------------------
ScenBegin ==
  /\ Is("scen.begin") /\ Adv
  /\ scen' = Ev /\ prev' = NoPrev /\ runlog' = <<>> /\ runinfo' = NoRun /\ ffBuf' = NoStream /\ topInv' = 0
  /\ viol' = {} /\ pc' = "idle"
  /\ UNCHANGED <<cfg, ffq, ff, pend, valid, invalid, seed, cur, flag, e1, e2, buf, best, orig, sErr, cache, shrinks, rep, tbFailed, tbFailNow, mon>>

\* end of a scenario: obligations only accumulate within a scenario, so judging here is judging every state of it;
\* the verdict is printed and validation goes on with the next scenario (every violating scenario is reported)
ScenEnd ==
  /\ Is("scen.end") /\ Adv /\ EUnch /\ viol' = viol
  /\ IF viol \cap Verdicts = {} THEN TRUE ELSE PrintT(<<"VIOLATED", scen.id, viol \cap Verdicts, l>>)
  /\ UNCHANGED <<scen, ffBuf, topInv, runlog, prev, runinfo>>

\* files a run must pick up by itself: everything in the test's directory that matches the documented pattern
Globbed(files) == { files[i].path : i \in { j \in 1..Len(files) : files[j].glob } }

RunBegin ==
  /\ Is("run.begin") /\ Adv
  /\ LET c == [checks |-> Ev.checks, base |-> Ev.seed.l, nofailfile |-> Ev.nofailfile, failfile |-> Ev.failfile, deadline |-> scen.deadline,
               expectFF |-> Globbed(Ev.files) \cup (IF Ev.failfile = "" THEN {} ELSE {Ev.failfile}),
               mustFF |-> { Ev.files[i].path : i \in { j \in 1..Len(Ev.files) : Ev.files[j].glob /\ Ev.files[j].ok } } \cup (IF Ev.failfile = "" THEN {} ELSE {Ev.failfile})]
     IN E_RunBegin(c)
  /\ viol' = viol
  /\ runinfo' = Ev /\ runlog' = <<>> /\ ffBuf' = NoStream /\ topInv' = 0
  /\ UNCHANGED <<scen, prev>>

\* (the base seed is logged here: without -rapid.seed it is random and not known from the flags)
\* a file the harness's own reader cannot parse, or of another version, must be ignored
MustIgnore(file) == \E i \in 1..Len(runinfo.files) : runinfo.files[i].path = file /\ (~runinfo.files[i].ok \/ runinfo.files[i].version # scen.version)
FFList ==
  /\ Is("h.failfiles") /\ Adv
  /\ Do(V_FFList(Ev.files), E_FFList(Ev.files, Ev.baseSeed.l))
  /\ UNCHANGED <<scen, ffBuf, topInv, runlog, prev, runinfo>>

FFLoad ==
  /\ Is("h.ff.load") /\ Adv
  /\ LET usable == Ev.ok /\ Ev.sameVersion IN
       Do(V_FFLoad(Ev.file, usable) \cup If(usable /\ MustIgnore(Ev.file), "unusable_file_used"), E_FFLoad(Ev.file, usable))
  /\ ffBuf' = IF Ev.ok THEN BufStream(Ev.buf) ELSE NoStream
  /\ UNCHANGED <<scen, topInv, runlog, prev, runinfo>>

Phase ==
  /\ Is("h.phase") /\ Adv
  /\ LET k == Ev.kind
         s == CASE k \in {"gen", "repro"} -> SeedStream(Ev.seed)
                [] k \in {"ff1", "ff2"}   -> ffBuf
                [] k \in {"shrink1", "shrink2"} -> BufStream(Ev.cand)
                [] k \in {"capture", "final"} -> BufStream(Ev.buf)
                [] OTHER -> NoStream
         sd == IF k \in {"gen", "repro"} THEN Ev.seed.l ELSE seed
     IN Do(V_Begin(k, s, sd) \cup If(k \in {"ff1", "ff2"} /\ MustIgnore(Ev.file), "unusable_file_used"), E_Begin(k, s, sd))
  /\ UNCHANGED <<scen, ffBuf, topInv, runlog, prev, runinfo>>

OnceBegin == /\ Is("h.once.begin") /\ Adv /\ EUnch /\ viol' = viol /\ UNCHANGED <<scen, ffBuf, topInv, runlog, prev, runinfo>>

\* --- what the property function does (harness events) --------------------
Running == cur.kind \in {"ff1", "ff2", "gen", "repro", "shrink1", "shrink2", "capture", "final"}
SetObs(o) == IF Running THEN E_Ran(o) ELSE EUnch

InvBegin ==
  /\ Is("inv.begin") /\ Adv /\ topInv' = Ev.inv
  /\ SetObs(NoObs) /\ viol' = viol
  /\ UNCHANGED <<scen, ffBuf, runlog, prev, runinfo>>

Draw ==
  /\ Is("draw") /\ Adv
  /\ SetObs(IF Ev.inv = topInv THEN [cur.obs EXCEPT !.draws = Append(@, <<Ev.label, Ev.val>>)] ELSE cur.obs)
  /\ viol' = viol
  /\ UNCHANGED <<scen, ffBuf, topInv, runlog, prev, runinfo>>

Stronger(a, b) == \/ a = "panic" /\ b \in {"none", "nonfatal"}
                  \/ a = "fatal" /\ b \in {"none", "nonfatal"}
                  \/ a = "nonfatal" /\ b \in {"none", "nonfatal"}

Call ==
  /\ Is("call") /\ Adv
  /\ LET m == Ev.m
         o == cur.obs
         sig == CASE m \in {"errorf", "error", "fail"} -> "nonfatal"
                  [] m \in {"fatalf", "fatal", "failnow"} -> "fatal"
                  [] m \in {"panic", "rterr"} -> "panic"
                  [] OTHER -> "none"
         site == IF sig = "nonfatal" THEN "NF" ELSE m \o "@" \o ToString(Ev.site)
         \* (a fatal signal or panic raised from a cleanup function, i.e. while an earlier panic unwinds, supersedes it: Go's panic semantics)
         o2 == IF sig # "none" /\ (Stronger(sig, o.sig) \/ (sig \in {"fatal", "panic"} /\ o.ended # "running"))
               THEN [o EXCEPT !.sig = sig, !.site = site, !.msg = Ev.msg]
               ELSE IF m = "skip" /\ o.ended # "running" THEN [o EXCEPT !.ended = "skip"]   \* a skip raised from a cleanup
               ELSE o
         o3 == IF m = "skip" /\ o.inInv THEN [o2 EXCEPT !.invSkip = TRUE] ELSE o2
     IN SetObs(IF sig # "none" THEN [o3 EXCEPT !.msgs = @ \cup {Ev.msg}] ELSE o3)
  /\ viol' = viol
  /\ UNCHANGED <<scen, ffBuf, topInv, runlog, prev, runinfo>>

\* T.Repeat found no action that can run (100 actions in a row skipped before drawing anything) and fails the test case itself
\* (statemachine.go: executeAction panics with stopTest): a fatal signal raised by the library on the property's behalf
ActionNone ==
  /\ Is("h.action.none") /\ Adv
  /\ SetObs(IF Stronger("fatal", cur.obs.sig)
            THEN [cur.obs EXCEPT !.sig = "fatal", !.site = "no-valid-action", !.msg = "can't find a valid (non-skipped) action",
                                 !.msgs = @ \cup {"can't find a valid (non-skipped) action"}]
            ELSE [cur.obs EXCEPT !.msgs = @ \cup {"can't find a valid (non-skipped) action"}])
  /\ viol' = viol
  /\ UNCHANGED <<scen, ffBuf, topInv, runlog, prev, runinfo>>

\* the invariant of a state machine runs (T.Repeat's "" action)
SmInv ==
  /\ l <= Len(Trace) /\ Trace[l].ev \in {"sm.inv.begin", "sm.inv.end"} /\ Adv
  /\ SetObs([cur.obs EXCEPT !.inInv = (Ev.ev = "sm.inv.begin")])
  /\ viol' = viol
  /\ UNCHANGED <<scen, ffBuf, topInv, runlog, prev, runinfo>>

\* the property's own code swallowed the panic that carried a fatal signal (a deferred recover() in user code): the signal was raised all the same,
\* the call just did not end there -- the test case has failed without stopping
Recovered ==
  /\ Is("recovered") /\ Adv
  /\ SetObs(IF cur.obs.sig = "fatal" THEN [cur.obs EXCEPT !.sig = "nonfatal", !.site = "NF"] ELSE cur.obs)
  /\ viol' = viol
  /\ UNCHANGED <<scen, ffBuf, topInv, runlog, prev, runinfo>>

\* MakeCheck under a real test deadline: Check may stop generating test cases early only when the deadline is near, i.e. (engine.go:findBug) when less
\* time is left than five average test cases take.  The harness measured the time left when Check returned and what the generated cases cost;
\* the margin (8 instead of 5 average cases, plus half a second) absorbs what the two clocks do not share.
Timing ==
  /\ Is("timing") /\ Adv /\ EUnch
  /\ viol' = viol \cup If(mon.early /\ Ev.hasdeadline /\ Ev.invs > 0 /\ Ev.remain_ms > 8 * (Ev.total_ms \div Ev.invs) + 500, "early_exit_too_early")
  /\ UNCHANGED <<scen, ffBuf, topInv, runlog, prev, runinfo>>

\* a context obtained while the property function is still running must be live
Ctx ==
  /\ Is("ctx") /\ Adv /\ EUnch
  /\ viol' = viol \cup If(Running /\ cur.obs.ended = "running" /\ Ev.inv = topInv /\ Ev.where \notin {"after", "at-cleanup"} /\ Ev.err # "nil", "dead_context_in_body")
                  \* (the harness samples the contexts of a finished test case again when the next one begins)
                  \cup If(Ev.where = "after" /\ Ev.err = "nil", "context_outlives_case")
  /\ UNCHANGED <<scen, ffBuf, topInv, runlog, prev, runinfo>>

InvEnd ==
  /\ Is("inv.end") /\ Adv
  /\ SetObs([cur.obs EXCEPT !.ended = IF Ev.how = "ret" THEN "ret" ELSE IF Ev.last = "skip" THEN "skip" ELSE "unwind"])
  /\ viol' = viol
  /\ UNCHANGED <<scen, ffBuf, topInv, runlog, prev, runinfo>>

\* events the engine specification does not talk about (custom-function brackets etc.)
Handled == {"scen.end", "ctx", "scen.begin", "run.begin", "h.failfiles", "h.ff.load", "h.phase", "h.once.begin", "inv.begin", "draw", "call", "inv.end",
            "h.once.end", "h.shrink.begin", "h.accept", "h.shrink.end", "h.docheck.ret", "h.save", "tb.logf", "tb.errorf", "tb.failnow",
            "run.end", "fs", "recovered", "timing", "h.action.none", "sm.inv.begin", "sm.inv.end"}
Other ==
  /\ l <= Len(Trace) /\ Trace[l].ev \notin Handled
  /\ Adv /\ EUnch /\ viol' = viol /\ UNCHANGED <<scen, ffBuf, topInv, runlog, prev, runinfo>>

OnceEnd ==
  /\ Is("h.once.end") /\ Adv
  /\ Do(V_Ret(Err(Ev.err)), E_Ret(Err(Ev.err)))
  /\ runlog' = IF scen.nruns > 1 /\ cur.kind \in {"gen", "ff1", "ff2"} THEN Append(runlog, <<cur.kind, cur.stream.id, cur.obs.draws, Ev.err.class, Expect(cur.obs).site>>) ELSE runlog
  /\ UNCHANGED <<scen, ffBuf, topInv, prev, runinfo>>

\* --- shrinker -------------------------------------------------------------
ShrinkBegin ==
  /\ Is("h.shrink.begin") /\ Adv
  /\ Do(V_ShrinkBegin(BufStream(Ev.data), Err(Ev.err)), E_ShrinkBegin(BufStream(Ev.data), Err(Ev.err)))
  /\ UNCHANGED <<scen, ffBuf, topInv, runlog, prev, runinfo>>

Accept ==
  /\ Is("h.accept") /\ Adv
  /\ IF Ev.how = "accepted"
     THEN Do(V_Accept(BufStream(Ev.cand), BufStream(Ev.new), Err(Ev.err1), Err(Ev.err2), Ev.same),
             E_Accept(BufStream(Ev.cand), BufStream(Ev.new), Err(Ev.err1), Err(Ev.err2), Ev.same))
     ELSE /\ EUnch /\ viol' = viol \cup V_Reject(Ev.how, BufStream(Ev.cand))
  /\ UNCHANGED <<scen, ffBuf, topInv, runlog, prev, runinfo>>

ShrinkEnd ==
  /\ Is("h.shrink.end") /\ Adv
  /\ Do(V_ShrinkEnd(BufStream(Ev.data), Err(Ev.err)), E_ShrinkEnd(BufStream(Ev.data), Err(Ev.err)))
  /\ UNCHANGED <<scen, ffBuf, topInv, runlog, prev, runinfo>>

DoCheckRet ==
  /\ Is("h.docheck.ret") /\ Adv
  /\ LET r == [valid |-> Ev.valid, invalid |-> Ev.invalid, early |-> Ev.earlyExit, e1 |-> Err(Ev.err1), e2 |-> Err(Ev.err2), buf |-> BufStream(Ev.buf)]
     IN Do(V_DoCheckRet(r), E_DoCheckRet(r))
  /\ UNCHANGED <<scen, ffBuf, topInv, runlog, prev, runinfo>>

Save ==
  /\ Is("h.save") /\ Adv
  /\ Do(V_Save(Ev.file, BufStream(Ev.buf), Ev.ok), E_Save(Ev.file, BufStream(Ev.buf), Ev.ok))
  /\ UNCHANGED <<scen, ffBuf, topInv, runlog, prev, runinfo>>

\* --- what the TB receives -------------------------------------------------
TBLog ==
  /\ Is("tb.logf") /\ Adv
  /\ CASE Ev.class = "ok" -> Do(V_PassLogged(Ev.valid), E_PassLogged(Ev.valid))
       [] Ev.class = "ffignore" -> Do(V_FFIgnoreLogged, E_FFIgnoreLogged)
       [] Ev.class = "teststart" -> EUnch /\ viol' = viol \cup V_TestStart(Ev.n, Ev.seedw.l)
       [] Ev.class = "testend" -> EUnch /\ viol' = viol \cup V_TestEnd(Ev.n, Ev.res)
       [] Ev.class = "draw" /\ cur.kind = "final" ->
            E_DrawLogged(IF Ev.auto >= 0 THEN "" ELSE Ev.label, Ev.val) /\ viol' = viol \cup If(Ev.auto >= 0 /\ Ev.auto # Len(cur.obs.draws), "label_carried_over")
       [] Ev.class = "draw" /\ cur.kind # "final" ->
            EUnch /\ viol' = viol \cup If(Running /\ Ev.auto >= 0 /\ Ev.auto # Len(cur.obs.draws), "label_carried_over")
       [] OTHER -> EUnch /\ viol' = viol
  /\ UNCHANGED <<scen, ffBuf, topInv, runlog, prev, runinfo>>

TBErrorf ==
  /\ Is("tb.errorf") /\ Adv
  /\ LET r == CASE Ev.class = "onlygen" -> [NoRep EXCEPT !.kind = "onlygen", !.valid = Ev.valid]
                [] Ev.class \in {"failed", "panic"} ->
                     [kind |-> Ev.class, valid |-> Ev.valid, seed |-> Ev.seedw.l, hasseed |-> Ev.seed # "", failfile |-> Ev.failfile, msg |-> Ev.msg]
                [] Ev.class = "flaky" ->
                     [kind |-> "flaky", valid |-> -1, seed |-> Ev.seedw.l, hasseed |-> Ev.seed # "", failfile |-> Ev.failfile, msg |-> ""]
                [] OTHER -> [NoRep EXCEPT !.kind = "other"]
     IN Do(V_Errorf(r), E_Errorf(r))
  /\ UNCHANGED <<scen, ffBuf, topInv, runlog, prev, runinfo>>

TBFailNow ==
  /\ Is("tb.failnow") /\ Adv
  /\ Do(V_FailNow, E_FailNow)
  /\ UNCHANGED <<scen, ffBuf, topInv, runlog, prev, runinfo>>

---------------------------------------------------------------------------
(* Cross-run obligations.  prev summarises the previous run of the scenario. *)
GenLog(lg) == SelectSeq(lg, LAMBDA x : x[1] = "gen")
FirstFail(lg) == LET fs == SelectSeq(lg, LAMBDA x : x[1] \in {"gen", "ff1"} /\ x[4] \in {"stop", "panic"}) IN IF fs = <<>> THEN <<>> ELSE fs[1]
Strip(lg) == [i \in 1..Len(lg) |-> <<lg[i][1], lg[i][3], lg[i][4]>>]

\* the run an expectation refers to: runinfo.expectRun (1-based), by default the previous one
RefRun == IF runinfo.expectRun > 0 /\ runinfo.expectRun <= Len(prev) THEN prev[runinfo.expectRun] ELSE prev[Len(prev)]

V_CrossRun(failed, tries) ==
  IF prev = <<>> \/ runinfo.expect = "" THEN {}
  ELSE LET pr == RefRun IN
    \* the run after a persisted failure, with no flags: the fail file is found and replayed first
    (IF runinfo.expect = "replay_prev"
     THEN If(pr.buf.id \notin mon.ffStreams, "replay_not_first")   \* replayed (as a fail file) before any random test case
          \cup If(~(rep.kind = pr.rep.kind /\ rep.valid = 0 /\ rep.msg = pr.rep.msg), "replay_differs")
          \cup If(mon.finalObs.draws # pr.finalDraws, "replay_differs")
     ELSE {})
    \* -rapid.seed=<printed seed>: the very first test case is the originally failing one
    \cup (IF runinfo.expect = "seed_prev" /\ pr.rep.hasseed      \* (a report that prints no seed promises nothing)
     THEN If(~(Len(runlog) > 0 /\ runlog[1][1] = "gen" /\ runlog[1][3] = pr.failDraws /\ runlog[1][4] \in {"stop", "panic"}), "seed_replay_differs")
          \cup If(~(rep.kind = pr.rep.kind /\ (rep.valid = 0 \/ rep.kind = "flaky")), "seed_replay_differs")
     ELSE {})
    \* same fixed seed, same property: the whole run is identical
    \cup (IF runinfo.expect = "same_run"
     THEN If(Strip(runlog) # Strip(pr.runlog), "seed_run_differs")
          \* (what the TB was told is observable only when both runs had a recording TB)
          \cup If(runinfo.entry # "makecheck" /\ pr.entry # "makecheck" /\ (rep.kind # pr.rep.kind \/ rep.valid # pr.rep.valid \/ rep.msg # pr.rep.msg), "seed_run_differs")
          \cup If(failed # pr.failed, "seed_run_differs")
          \cup If(buf.id # pr.buf.id, "seed_run_differs")
          \* the minimizer tried the same candidates in the same order ("" = nothing minimized, or possibly cut short by -rapid.shrinktime)
          \cup If(tries # "" /\ pr.tries # "" /\ tries # pr.tries, "seed_run_differs")
     ELSE {})
    \* unusable fail files present: same random test cases and same verdict as without them
    \cup (IF runinfo.expect = "same_as_clean" /\ ~mon.fromFF
     THEN If(Strip(GenLog(runlog)) # Strip(GenLog(pr.runlog)), "ff_changed_cases")
          \cup If(rep.kind # pr.rep.kind \/ failed # pr.failed, "ff_changed_verdict")
     ELSE {})

RunEnd ==
  /\ Is("run.end") /\ Adv
  /\ viol' = viol \cup (IF runinfo.entry = "makecheck" THEN V_RunEndNoTB(Ev.failed) ELSE V_RunEnd(Ev.failed, Ev.failnow)) \cup V_CrossRun(Ev.failed, Ev.tries)
                  \cup If(Ev.how = "panic", "check_crashed")
  /\ prev' = Append(prev, [valid |-> TRUE, rep |-> rep, buf |-> buf, finalDraws |-> mon.finalObs.draws, failDraws |-> mon.failDraws,
              runlog |-> runlog, failed |-> Ev.failed, savedFile |-> mon.savedFile, fromFF |-> mon.fromFF, entry |-> runinfo.entry, tries |-> Ev.tries])
  /\ pc' = "ended"
  /\ UNCHANGED <<cfg, ffq, ff, pend, valid, invalid, seed, cur, flag, e1, e2, buf, best, orig, sErr, cache, shrinks, rep, tbFailed, tbFailNow, mon>>
  /\ UNCHANGED <<scen, ffBuf, topInv, runlog, runinfo>>

(* the directory after the run, read back by the harness's own parser *)
FileAt(files, p) == { files[i] : i \in { j \in 1..Len(files) : files[j].path = p } }
V_FS(files) ==
  LET reported == rep.kind \in {"failed", "panic", "flaky"} /\ ~mon.fromFF
      f == FileAt(files, rep.failfile)
      newOnes == { files[i].path : i \in { j \in 1..Len(files) : files[j].glob } } \ cfg.expectFF
  IN (IF reported /\ rep.failfile # ""
      THEN If(f = {}, "persist_mismatch")
           \cup If(\E x \in f : ~x.ok \/ (x.ok /\ x.buf.id # buf.id), "persist_mismatch")
           \cup If(\E x \in f : ~x.glob, "failfile_name")
      ELSE {})
     \cup If(reported /\ ~cfg.nofailfile /\ Cardinality(newOnes) # 1, "no_failfile_written")
     \cup If((~reported \/ cfg.nofailfile) /\ newOnes # {}, "unexpected_failfile")
     \cup If(\E i \in 1..Len(files) : files[i].tmp, "tmp_left_behind")

FS ==
  /\ Is("fs") /\ Adv
  /\ EUnch /\ viol' = viol \cup V_FS(Ev.files)
  /\ UNCHANGED <<scen, ffBuf, topInv, runlog, prev, runinfo>>

Next == ScenEnd \/ Ctx \/ ScenBegin \/ RunBegin \/ FFList \/ FFLoad \/ Phase \/ OnceBegin \/ InvBegin \/ Draw \/ Call \/ SmInv \/ Recovered \/ ActionNone \/ Timing \/ InvEnd \/ Other
        \/ OnceEnd \/ ShrinkBegin \/ Accept \/ ShrinkEnd \/ DoCheckRet \/ Save \/ TBLog \/ TBErrorf \/ TBFailNow \/ RunEnd \/ FS

Spec == Init /\ [][Next]_vars

---------------------------------------------------------------------------
\* no obligation of the property under check is violated, at any step of any recorded execution
NoVerdictViolation == \/ viol \cap Verdicts = {}
                      \/ PrintT(<<"VIOLATED", scen.id, viol \cap Verdicts, l>>) /\ FALSE

\* high-water mark of consumed lines, and the binding obligations lost (reported, never alarmed)
HW == /\ TLCSet(1, IF l > TLCGet(1) THEN l ELSE TLCGet(1))
      /\ TLCSet(2, TLCGet(2) \cup (viol \ Verdicts))
ASSUME TLCSet(1, 0) /\ TLCSet(2, {})
Accepted == /\ PrintT(<<"BINDING_LOST", TLCGet(2)>>)
            /\ IF TLCGet(1) = Len(Trace) + 1 THEN PrintT(<<"TRACE_ACCEPTED", Len(Trace)>>)
               ELSE PrintT(<<"TRACE_REJECTED_AT", TLCGet(1), Trace[TLCGet(1)].ev, Trace[TLCGet(1)].seq>>) /\ FALSE
=============================================================================
