SPECIFICATION Spec
CONSTANTS
  Design = "repaired"
  InvalidMult = 2
  MaxRank = 3
  Checks = 2
  Files = {"f1", "f2"}
  Less <- MCLess
  BehSel <- BehSelCore
INVARIANTS NoViolation C01_Real C01_NoPhantom C01_NotFlaky C02_NoLost C09_Work C09_FailNow C05_Smaller
CHECK_DEADLOCK FALSE
