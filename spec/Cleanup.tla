------------------------------- MODULE Cleanup -------------------------------
(* Design model of T.cleanup(), the end of every invocation of a property or
   Custom function (engine.go): cancel the context, then pop and run the
   registered functions last-in-first-out; a deferred closure re-enters
   cleanup() if functions are left (because one of them panicked), and the
   `cleaning` flag tells T.Context() not to create a new live context.

   Scripts: up to MaxCleanups functions of kinds
     plain | panics | registers (registers another plain one) | ctx (calls
     T.Context()) | skip (panics with invalidData),
   the body may have obtained a context, and ends by return or panic.
   Design = "code" is the algorithm as implemented; the other values are
   plausible wrong variants used as the non-vacuity test of the invariants. *)
EXTENDS Integers, Sequences, FiniteSets, TLC

CONSTANTS Design,        \* "code" | "nodefer" | "fifo" | "cancel_late" | "flag_not_reset" | "ctx_stored"
          MaxCleanups

Kinds == {"plain", "panics", "registers", "ctx", "skip"}

VARIABLES script, bodyCtx, bodyEnd,   \* the scenario
          pcb,        \* "body" | "cleanup" | "done"
          k,          \* next script position to register
          stack,      \* pending cleanups: seq of [id, kind]
          nextId,
          ran,        \* ids in the order they ran
          pops,       \* history: <<id popped, set of ids pending at that time>>
          tctx,       \* T.ctx: "nil" | "live" | "cancelled"
          ctxs,       \* every context handed out: seq of [when, state]  (state is updated on cancel for the body's one)
          cleaning,
          acts,       \* activations of cleanup(): seq of "start" | "loop" | "closure" | "wait" | "clear"
          panicking,
          liveDuringCleanup   \* a registered function ran while a context obtained by the body was still live

vars == <<script, bodyCtx, bodyEnd, pcb, k, stack, nextId, ran, pops, tctx, ctxs, cleaning, acts, panicking, liveDuringCleanup>>

Scripts == UNION { [1..n -> Kinds] : n \in 0..MaxCleanups }

Init ==
  /\ script \in Scripts /\ bodyCtx \in BOOLEAN /\ bodyEnd \in {"ret", "panic"}
  /\ pcb = "body" /\ k = 1 /\ stack = <<>> /\ nextId = 1 /\ ran = <<>> /\ pops = <<>>
  /\ tctx = "nil" /\ ctxs = <<>> /\ cleaning = FALSE /\ acts = <<>> /\ panicking = FALSE /\ liveDuringCleanup = FALSE

\* T.Context()
GetCtx(when) ==
  IF tctx # "nil" THEN /\ ctxs' = Append(ctxs, [when |-> when, state |-> tctx]) /\ tctx' = tctx
  ELSE IF cleaning /\ Design # "ctx_stored"
       THEN /\ ctxs' = Append(ctxs, [when |-> when, state |-> "cancelled"]) /\ tctx' = tctx     \* throw-away cancelled context
       ELSE IF Design = "ctx_stored" /\ cleaning
            THEN /\ ctxs' = Append(ctxs, [when |-> when, state |-> "cancelled"]) /\ tctx' = "cancelled"  \* stored: leaks into the next invocation
            ELSE /\ ctxs' = Append(ctxs, [when |-> when, state |-> "live"]) /\ tctx' = "live"

Body ==
  /\ pcb = "body"
  /\ \/ /\ k <= Len(script)
        /\ stack' = Append(stack, [id |-> nextId, kind |-> script[k]]) /\ nextId' = nextId + 1 /\ k' = k + 1
        /\ UNCHANGED <<pcb, tctx, ctxs, acts, panicking>>
     \/ /\ k > Len(script) /\ bodyCtx /\ ctxs = <<>>
        /\ GetCtx("body") /\ UNCHANGED <<pcb, stack, nextId, k, acts, panicking>>
     \/ /\ k > Len(script) /\ (bodyCtx => ctxs # <<>>)
        /\ pcb' = "cleanup" /\ acts' = <<"start">> /\ panicking' = (bodyEnd = "panic")
        /\ UNCHANGED <<stack, nextId, k, tctx, ctxs>>
  /\ UNCHANGED <<script, bodyCtx, bodyEnd, ran, pops, cleaning, liveDuringCleanup>>

TopAct == acts[Len(acts)]
SetTopAct(a) == [acts EXCEPT ![Len(acts)] = a]
CancelAll == [i \in 1..Len(ctxs) |-> [ctxs[i] EXCEPT !.state = "cancelled"]]

Start ==
  /\ pcb = "cleanup" /\ TopAct = "start"
  /\ cleaning' = TRUE
  /\ IF Design = "cancel_late" THEN UNCHANGED <<tctx, ctxs>>
     ELSE /\ tctx' = "nil" /\ ctxs' = IF tctx = "live" THEN CancelAll ELSE ctxs
  /\ acts' = SetTopAct("loop")
  /\ UNCHANGED <<script, bodyCtx, bodyEnd, pcb, k, stack, nextId, ran, pops, panicking, liveDuringCleanup>>

Pending == { stack[i].id : i \in 1..Len(stack) }

Loop ==
  /\ pcb = "cleanup" /\ TopAct = "loop"
  /\ IF stack = <<>>
     THEN /\ acts' = SetTopAct("closure")
          /\ UNCHANGED <<stack, nextId, ran, pops, tctx, ctxs, panicking, liveDuringCleanup>>
     ELSE LET ix == IF Design = "fifo" THEN 1 ELSE Len(stack)
              c == stack[ix]
              rest == [i \in 1..(Len(stack) - 1) |-> IF i < ix THEN stack[i] ELSE stack[i + 1]]
          IN /\ ran' = Append(ran, c.id) /\ pops' = Append(pops, <<c.id, Pending>>)
             /\ liveDuringCleanup' = (liveDuringCleanup \/ \E i \in 1..Len(ctxs) : ctxs[i].when = "body" /\ ctxs[i].state = "live")
             /\ CASE c.kind = "plain" -> /\ stack' = rest /\ UNCHANGED <<nextId, tctx, ctxs, panicking, acts>>
                  [] c.kind = "registers" -> /\ stack' = Append(rest, [id |-> nextId, kind |-> "plain"]) /\ nextId' = nextId + 1
                                             /\ UNCHANGED <<tctx, ctxs, panicking, acts>>
                  [] c.kind = "ctx" -> /\ stack' = rest /\ GetCtx("cleanup") /\ UNCHANGED <<nextId, panicking, acts>>
                  [] c.kind \in {"panics", "skip"} -> /\ stack' = rest /\ panicking' = TRUE
                                                    /\ acts' = SetTopAct(IF Design = "nodefer" THEN "clear" ELSE "closure")
                                                    /\ UNCHANGED <<nextId, tctx, ctxs>>
  /\ UNCHANGED <<script, bodyCtx, bodyEnd, pcb, k, cleaning>>

\* the deferred closure: re-enter if functions are left
Closure ==
  /\ pcb = "cleanup" /\ TopAct = "closure"
  /\ acts' = IF stack # <<>> THEN Append(SetTopAct("wait"), "start") ELSE SetTopAct("clear")
  /\ UNCHANGED <<script, bodyCtx, bodyEnd, pcb, k, stack, nextId, ran, pops, tctx, ctxs, cleaning, panicking, liveDuringCleanup>>

Wait ==
  /\ pcb = "cleanup" /\ TopAct = "wait"
  /\ acts' = SetTopAct("clear")
  /\ UNCHANGED <<script, bodyCtx, bodyEnd, pcb, k, stack, nextId, ran, pops, tctx, ctxs, cleaning, panicking, liveDuringCleanup>>

Clear ==
  /\ pcb = "cleanup" /\ TopAct = "clear"
  /\ cleaning' = IF Design = "flag_not_reset" /\ panicking THEN cleaning ELSE FALSE
  /\ acts' = SubSeq(acts, 1, Len(acts) - 1)
  /\ pcb' = IF Len(acts) = 1 THEN "done" ELSE pcb
  /\ IF Len(acts) = 1 /\ Design = "cancel_late"
     THEN /\ tctx' = "nil" /\ ctxs' = IF tctx = "live" THEN CancelAll ELSE ctxs
     ELSE UNCHANGED <<tctx, ctxs>>
  /\ UNCHANGED <<script, bodyCtx, bodyEnd, k, stack, nextId, ran, pops, panicking, liveDuringCleanup>>

Next == Body \/ Start \/ Loop \/ Closure \/ Wait \/ Clear

Spec == Init /\ [][Next]_vars /\ WF_vars(Next)

---------------------------------------------------------------------------
Max(S) == CHOOSE x \in S : \A y \in S : y <= x
Registered == 1..(nextId - 1)

\* every registered function (also those registered during cleanup) runs exactly once
ExactlyOnce == pcb = "done" => /\ \A id \in Registered : Cardinality({ i \in 1..Len(ran) : ran[i] = id }) = 1
                               /\ stack = <<>>
\* last in, first out: each function that starts is the most recently registered one still pending
LIFO == \A i \in 1..Len(pops) : pops[i][1] = Max(pops[i][2])
\* the context of the call is cancelled before any registered function runs
CancelledBeforeCleanups == ~liveDuringCleanup
\* a context obtained during cleanup is already cancelled; after the invocation every context is cancelled
LateContextsDead == \A i \in 1..Len(ctxs) : ctxs[i].when = "cleanup" => ctxs[i].state = "cancelled"
AllCancelledAtEnd == pcb = "done" => \A i \in 1..Len(ctxs) : ctxs[i].state = "cancelled"
\* nothing is left in the T for the next invocation (it is reused for all random test cases)
CleanForNext == pcb = "done" => tctx = "nil" /\ ~cleaning /\ stack = <<>>
Terminates == <>(pcb = "done")
=============================================================================
