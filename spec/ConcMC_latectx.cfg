CONSTANTS Workers = {1,2} Ops = {"context","failed"} Variant = "code" Late = TRUE MainCtx = FALSE Recheck = TRUE
SPECIFICATION Spec
INVARIANTS NoRace AllCancelled
PROPERTY Termination
CHECK_DEADLOCK FALSE
