CONSTANTS Workers = {1,2} Ops = {"errorf","context","cleanup","failed"} Variant = "code" Late = FALSE MainCtx = TRUE Recheck = TRUE
SPECIFICATION Spec
INVARIANTS NoRace NoLostFailure OneContext AllCancelled CleanupOnce
CHECK_DEADLOCK FALSE
