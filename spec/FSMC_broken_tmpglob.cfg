SPECIFICATION Spec
CONSTANTS
 Design = "tmp_glob"
 Chunks = 3
INVARIANTS AtomicVisible TmpDisjoint Saved
PROPERTY Finishes
CHECK_DEADLOCK FALSE
