--------------------------- MODULE MinimizeTrace ---------------------------
(* Calls of the real block minimizer (shrink.go minimize, reached through the
   verif hook VerifMinimize) recorded by the harness, checked against the
   transcription in Minimize: for a start value u and an ARBITRARY condition --
   recorded as the set of values below 2^W it holds for -- the code returns
   exactly what the transcription computes.  (For threshold conditions the
   model checker proves Minimize!Exact; this module binds the transcription,
   pass by pass and query by query, to the code: any difference in the order
   or the acceptance rule of the passes shows as a different result for some
   non-monotone condition.)  The harness also runs every threshold condition
   for all u < 2^12 and reports the pairs whose result is not the threshold. *)
EXTENDS Minimize, Sequences, FiniteSets, Json

CONSTANTS Property
Trace == ndJsonDeserialize("trace.ndjson")

VARIABLES l, scen, viol
tvars == <<l, scen, viol>>

Ev == Trace[l]
Is(e) == l <= Len(Trace) /\ Trace[l].ev = e
Adv == l' = l + 1
If(c, name) == IF c THEN {name} ELSE {}

\* All three are BINDING obligations: C12 speaks about the counterexample Check reports, not about this function.  A minimizer that
\* differs from the transcription (another order of attempts, say) may still reach every boundary; then Minimize!Exact no longer says
\* anything about the code, which the evidence reports as binding lost, and the end-to-end boundary comparison alone decides C12.
VerdictOf == [ C12 |-> {} ]
Verdicts == IF Property = "ALL" THEN UNION { VerdictOf[p] : p \in DOMAIN VerdictOf } ELSE VerdictOf[Property]

TInit == /\ l = 1 /\ scen = [id |-> ""] /\ viol = {} /\ u = 0 /\ k = 0

ScenBegin == /\ Is("scen.begin") /\ Adv /\ scen' = Ev /\ viol' = {}
ScenEnd == /\ Is("scen.end") /\ Adv
           /\ IF viol \cap Verdicts = {} THEN TRUE ELSE PrintT(<<"VIOLATED", scen.id, viol \cap Verdicts, l>>)
           /\ UNCHANGED <<scen, viol>>

SetOf(s) == { s[i] : i \in 1..Len(s) }
\* one recorded call: minimize(u, x |-> x \in set) returned res
MinCall ==
  /\ Is("min.call") /\ Adv
  /\ LET S == SetOf(Ev.set)
         m == Minimize(Ev.u, S)
     IN viol' = viol \cup If(m # Ev.res, "minimize_differs_from_transcription")
                     \cup If(Ev.u \in S /\ (Ev.res \notin S \/ Ev.res > Ev.u), "minimize_unsound")
  /\ UNCHANGED scen
\* the exhaustive threshold sweep done by the harness: every (u, k) whose result was not k
MinSweep ==
  /\ Is("min.sweep") /\ Adv
  /\ viol' = viol \cup If(Ev.mismatches # <<>>, "minimize_not_exact")
  /\ UNCHANGED scen

Handled == {"scen.begin", "scen.end", "min.call", "min.sweep"}
Other == /\ l <= Len(Trace) /\ Trace[l].ev \notin Handled /\ Adv /\ UNCHANGED <<scen, viol>>

TNext == (ScenBegin \/ ScenEnd \/ MinCall \/ MinSweep \/ Other) /\ UNCHANGED <<u, k>>
TSpec == TInit /\ [][TNext]_<<tvars, u, k>>

HW == /\ TLCSet(1, IF l > TLCGet(1) THEN l ELSE TLCGet(1))
      /\ TLCSet(2, TLCGet(2) \cup (viol \ Verdicts))
ASSUME TLCSet(1, 0) /\ TLCSet(2, {})
Accepted == /\ PrintT(<<"BINDING_LOST", TLCGet(2)>>)
            /\ IF TLCGet(1) = Len(Trace) + 1 THEN PrintT(<<"TRACE_ACCEPTED", Len(Trace)>>)
               ELSE PrintT(<<"TRACE_REJECTED_AT", TLCGet(1), Trace[TLCGet(1)].ev, Trace[TLCGet(1)].seq>>) /\ FALSE
=============================================================================
