CONSTANTS Design = "pinned" W = 3 T = 1 E = 2 MinC = 0 MaxC = 5 L = 9
SPECIFICATION Spec
INVARIANTS ReplayPruned ReplayAsRecorded Contract RecordsWhatItRead
CHECK_DEADLOCK FALSE
