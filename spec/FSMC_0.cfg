SPECIFICATION Spec
CONSTANTS
 Design = "code"
 Chunks = 0
INVARIANTS AtomicVisible TmpDisjoint Saved
PROPERTY Finishes
CHECK_DEADLOCK FALSE
