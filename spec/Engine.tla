------------------------------ MODULE Engine ------------------------------
(* rapid's Check engine as a state machine: checkTB / doCheck / checkFailFile /
   findBug / shrink (accept discipline) / report / persist / final replay.

   One action per call the engine makes into the property function or the TB,
   and per decision it takes in between.  Every action X is written as two
   operators over the same arguments:

     V_X(args)  the set of OBLIGATIONS the step would violate in the current
                state (each a short name; the table at the end of this module
                says which listed property each name belongs to, and which
                names are only "binding" obligations);
     E_X(args)  the effect on the state.

   The bounded design model (EngineMC) takes a step only if V_X = {} -- it is
   the strict specification of how the engine is meant to behave -- and checks
   the end-to-end invariants over all property behaviours, seeds, shrink
   candidates and cut points.  The trace specification (EngineTrace) applies
   E_X for every event recorded from the real code and accumulates V_X in the
   variable `viol`: a recorded execution is a behaviour of the strict
   specification iff `viol` stays empty.

   Values: a stream (bitstream identity) is a record with an `id` (string) and
   whatever the order `Less` needs; an error is [class, site, msg]; an
   observation of what the property did in one invocation is
   [sig, site, msg, ended, nfw]; seeds are 64-bit words as limbs (W64). *)
EXTENDS Integers, Sequences, FiniteSets, TLC, W64

CONSTANTS Design,       \* "repaired": the code as it is;  "pinned": before the fix: commits (non-vacuity)
          InvalidMult,  \* 10 in the code
          Less(_, _)    \* strict short-lex order on streams

VARIABLES pc, cfg, ffq, ff, pend, valid, invalid, seed, cur, flag, e1, e2, buf,
          best, orig, sErr, cache, shrinks, rep, tbFailed, tbFailNow, mon, viol

evars == <<pc, cfg, ffq, ff, pend, valid, invalid, seed, cur, flag, e1, e2, buf,
           best, orig, sErr, cache, shrinks, rep, tbFailed, tbFailNow, mon, viol>>

---------------------------------------------------------------------------
NoStream == [id |-> "none", src |-> "none"]
NoErr    == [class |-> "none", site |-> "", msg |-> ""]
NoObs    == [sig |-> "none", site |-> "", msg |-> "", ended |-> "running", nfw |-> "", draws |-> <<>>, msgs |-> {}, inInv |-> FALSE, invSkip |-> FALSE]
NoRep    == [kind |-> "none", valid |-> -1, seed |-> Zero, hasseed |-> FALSE, failfile |-> "", msg |-> ""]
NoCur    == [kind |-> "none", stream |-> NoStream, obs |-> NoObs]

IsFail(e)    == e.class \in {"stop", "panic"}
LessEq(a, b) == a.id = b.id \/ Less(a, b)
SameErr(a, b) == a.class = b.class /\ a.msg = b.msg /\ a.site = b.site   \* sameError(): message and traceback

If(c, name) == IF c THEN {name} ELSE {}

\* What checkOnce must conclude from what the property did (the code as repaired):
\* any falsifying signal falsifies the test case -- the strongest one names it --
\* otherwise a skip makes it invalid and a normal return makes it pass.
Expect(o) ==
  CASE o.sig = "fatal"    -> [class |-> "stop",  site |-> o.site, msg |-> o.msg]
    [] o.sig = "panic"    -> [class |-> "panic", site |-> o.site, msg |-> o.msg]
    [] o.sig = "nonfatal" -> [class |-> "stop",  site |-> "NF",   msg |-> o.msg]
    [] o.invSkip          -> [class |-> "invalid", site |-> "", msg |-> ""]   \* a state machine's invariant skipped: that skips the test case, whatever Repeat does next
    [] o.ended = "ret"    -> NoErr
    [] OTHER              -> [class |-> "invalid", site |-> "", msg |-> ""]

\* The pinned design: the flag is consulted only right after the property body
\* returns, is never cleared, and a Custom function's inner T is dropped.
\* Returns <<error, flag left in the reused T>>.
PinnedOutcome(o, fl) ==
  CASE o.sig \in {"fatal", "panic"} -> <<Expect(o), fl>>
    [] o.sig = "nonfatal" /\ o.nfw = "custom"  -> <<IF o.ended = "ret" THEN (IF fl THEN [class |-> "stop", site |-> "NF", msg |-> "stale"] ELSE NoErr)
                                                   ELSE [class |-> "invalid", site |-> "", msg |-> ""], fl>>
    [] o.sig = "nonfatal" /\ o.nfw = "cleanup" -> <<IF o.ended = "ret" THEN (IF fl THEN [class |-> "stop", site |-> "NF", msg |-> "stale"] ELSE NoErr)
                                                   ELSE [class |-> "invalid", site |-> "", msg |-> ""], TRUE>>
    [] o.sig = "nonfatal" -> <<IF o.ended = "ret" THEN Expect(o) ELSE [class |-> "invalid", site |-> "", msg |-> ""], TRUE>>
    [] o.ended = "ret"    -> <<IF fl THEN [class |-> "stop", site |-> "NF", msg |-> "stale"] ELSE NoErr, fl>>
    [] OTHER              -> <<[class |-> "invalid", site |-> "", msg |-> ""], fl>>

Outcome(o, fl, reusedT) ==
  IF Design # "pinned" THEN <<Expect(o), FALSE>>
  ELSE PinnedOutcome(o, IF reusedT THEN fl ELSE FALSE)

---------------------------------------------------------------------------
(* run.begin: one call of Check / MakeCheck *)
E_RunBegin(c) ==
  /\ pc' = "list" /\ cfg' = c /\ ffq' = <<>> /\ ff' = "" /\ pend' = ""
  /\ valid' = 0 /\ invalid' = 0 /\ seed' = c.base /\ cur' = NoCur /\ flag' = FALSE
  /\ e1' = NoErr /\ e2' = NoErr /\ buf' = NoStream
  /\ best' = NoStream /\ orig' = NoStream /\ sErr' = NoErr /\ cache' = {} /\ shrinks' = 0
  /\ rep' = NoRep /\ tbFailed' = FALSE /\ tbFailNow' = FALSE
  /\ mon' = [anySig |-> FALSE, realFail |-> FALSE, firstObs |-> NoObs, finalObs |-> NoObs,
             tbDraws |-> <<>>, gens |-> 0, passes |-> 0, fromFF |-> FALSE, failSeed |-> Zero,
             iters |-> 0, saved |-> NoStream, savedFile |-> "", finalRan |-> FALSE, invs |-> 0,
             firstKind |-> "none", firstStream |-> NoStream, failDraws |-> <<>>, early |-> FALSE, ffStreams |-> {}, lastClass |-> "none"]

(* doCheck lists the fail files it is going to try: the -rapid.failfile one,
   then everything the discovery glob finds *)
V_FFList(files) ==
  \* (every file of the test's directory that reads as a fail file, and the one named with -rapid.failfile, must be tried; entries that
  \*  are no fail files anyway -- unreadable, garbage -- need not even be listed)
  If(\E f \in cfg.mustFF : \A i \in 1..Len(files) : files[i] # f, "ff_not_found")
  \cup If(cfg.failfile # "" /\ (files = <<>> \/ files[1] # cfg.failfile), "ff_explicit_not_first")
  \cup If(pc # "list", "ff_list_order")
E_FFList(files, base) ==
  /\ ffq' = files /\ pc' = "ff" /\ seed' = base
  /\ UNCHANGED <<cfg, ff, pend, valid, invalid, cur, flag, e1, e2, buf, best, orig, sErr, cache, shrinks, rep, tbFailed, tbFailNow, mon>>

(* checkFailFile: load *)
V_FFLoad(f, usable) ==
  If(ffq = <<>> \/ (ffq # <<>> /\ Head(ffq) # f), "ff_order")
  \cup If(pend # "", "ff_ignored_silently")
  \cup If(IsFail(e1) \/ IsFail(e2), "ff_after_failure")
  \cup If(mon.gens > 0, "ff_after_random")
E_FFLoad(f, usable) ==
  /\ ffq' = IF ffq = <<>> THEN <<>> ELSE Tail(ffq)
  /\ ff' = f
  /\ pend' = IF usable THEN "" ELSE f
  /\ pc' = IF usable THEN "ff1" ELSE "ff"
  /\ UNCHANGED <<cfg, valid, invalid, seed, cur, flag, e1, e2, buf, best, orig, sErr, cache, shrinks, rep, tbFailed, tbFailNow, mon>>

(* a "[rapid] ignoring fail file" / "no longer valid" / "no longer fails" log line *)
V_FFIgnoreLogged == If(pend = "", "ffignore_unexpected")
E_FFIgnoreLogged ==
  /\ pend' = ""
  /\ UNCHANGED <<pc, cfg, ffq, ff, valid, invalid, seed, cur, flag, e1, e2, buf, best, orig, sErr, cache, shrinks, rep, tbFailed, tbFailNow, mon>>

---------------------------------------------------------------------------
(* The engine is about to call the property function (checkOnce) for purpose
   `kind` on stream s.  sd is the seed of a random test case (gen / repro). *)
SeedOfIter == AddSmall(seed, valid + invalid)

V_Begin(kind, s, sd) ==
  CASE kind = "ff1" -> If(pc # "ff1", "ff1_order")
    [] kind = "ff2" -> If(pc # "ff2", "ff2_order")
    [] kind = "gen" ->
         If(IsFail(e1) \/ IsFail(e2), "gen_after_failure")
         \cup If(valid >= cfg.checks \/ invalid >= cfg.checks * InvalidMult, "gen_beyond_budget")
         \cup If(ffq # <<>> \/ pc \in {"ff1", "ff2", "list"}, "gen_before_failfiles")
         \cup If(pend # "", "ff_ignored_silently")
         \cup If(sd # SeedOfIter, "seed_schedule")
         \cup If(pc \notin {"ff", "gen"}, "gen_order")
    [] kind = "repro" -> If(pc # "repro", "repro_order") \cup If(sd # seed, "repro_seed")
    [] kind = "shrink1" ->
         If(pc # "shrink", "shrink_order")
         \cup If(~Less(s, best), "try_not_smaller")
         \cup If(s.id \in cache, "try_cached")
    [] kind = "shrink2" -> If(pc # "shrink2" \/ s.id # cur.stream.id, "shrink2_order")
    [] kind = "capture" ->
         If(pc # "report", "capture_order") \cup If(s.id # buf.id, "capture_wrong_buffer")
         \cup If(cfg.nofailfile \/ mon.fromFF, "capture_when_disabled")
    [] kind = "final" ->
         If(s.id # buf.id, "final_wrong_buffer") \cup If(rep.kind \notin {"failed", "panic", "flaky"}, "final_order")
    [] OTHER -> {"unknown_phase"}

E_Begin(kind, s, sd) ==
  /\ cur' = [kind |-> kind, stream |-> s, obs |-> NoObs]
  /\ seed' = IF kind = "gen" THEN sd ELSE seed
  /\ pc' = "running"
  /\ mon' = [mon EXCEPT !.gens = IF kind = "gen" THEN @ + 1 ELSE @,
                         !.invs = @ + 1,
                         !.firstKind = IF mon.invs = 0 THEN kind ELSE @,
                         !.firstStream = IF mon.invs = 0 THEN s ELSE @,
                         !.tbDraws = IF kind = "final" THEN <<>> ELSE @,
                         !.ffStreams = IF kind = "ff1" /\ mon.gens = 0 THEN @ \cup {s.id} ELSE @]
  /\ UNCHANGED <<cfg, ffq, ff, pend, valid, invalid, flag, e1, e2, buf, best, orig, sErr, cache, shrinks, rep, tbFailed, tbFailNow>>

(* the property function ran: o is everything it did that matters to the engine *)
E_Ran(o) ==
  /\ cur' = [cur EXCEPT !.obs = o]
  /\ UNCHANGED <<pc, cfg, ffq, ff, pend, valid, invalid, seed, flag, e1, e2, buf, best, orig, sErr, cache, shrinks, rep, tbFailed, tbFailNow, mon>>

(* checkOnce returned err *)
V_Ret(err) ==
  LET exp == Expect(cur.obs) IN
  If(IsFail(exp) /\ ~IsFail(err), "lost_failure")
  \cup If(~IsFail(exp) /\ IsFail(err), "phantom_failure")
  \cup If(~IsFail(exp) /\ ~IsFail(err) /\ exp.class # err.class, "skip_misjudged")
  \cup If(IsFail(exp) /\ IsFail(err) /\ exp.class # err.class, "failure_class")
  \* (several failure signals in one test case: which of their messages names the failure is the code's choice -- it must be one of them;
  \*  "" stands for a message the harness does not know, e.g. a runtime error's)
  \cup If(IsFail(exp) /\ IsFail(err) /\ cur.obs.msgs # {} /\ "" \notin cur.obs.msgs /\ err.msg \notin cur.obs.msgs, "failure_message")
  \cup If(cur.kind \in {"ff1", "ff2"} /\ ~IsFail(exp) /\ IsFail(err), "ff_phantom_failure")   \* a fail file that does not falsify the property must not fail the test

E_Ret(err) ==
  LET k == cur.kind
      o == cur.obs
      real == o.sig # "none"
  IN
  /\ mon' = [mon EXCEPT
        !.anySig   = @ \/ (k \in {"ff1", "ff2", "gen"} /\ real),
        !.realFail = @ \/ (k \in {"ff1", "gen"} /\ real),
        !.firstObs = IF k \in {"ff1", "gen"} /\ IsFail(err) /\ ~IsFail(e1) THEN o ELSE @,
        !.failDraws = IF k \in {"ff1", "gen"} /\ real /\ ~mon.realFail THEN o.draws ELSE @,   \* the test case that really failed first
        !.fromFF   = IF k = "ff1" /\ IsFail(err) THEN TRUE ELSE @,
        !.failSeed = IF k = "gen" /\ IsFail(err) THEN seed ELSE @,
        !.passes   = IF k = "gen" /\ err.class = "none" THEN @ + 1 ELSE @,
        !.finalObs = IF k = "final" THEN o ELSE @,
        !.finalRan = @ \/ k = "final",
        !.lastClass = err.class]
  /\ CASE k = "ff1" ->
            IF IsFail(err) THEN /\ e1' = err /\ pc' = "ff2" /\ UNCHANGED <<pend, e2, buf, valid, invalid>>
            ELSE /\ pend' = ff /\ pc' = "ff" /\ UNCHANGED <<e1, e2, buf, valid, invalid>>
       [] k = "ff2" -> /\ e2' = err /\ buf' = cur.stream /\ pc' = "ret" /\ UNCHANGED <<pend, e1, valid, invalid>>
       [] k = "gen" ->
            IF IsFail(err) THEN /\ e1' = err /\ pc' = "repro" /\ UNCHANGED <<pend, e2, buf, valid, invalid>>
            ELSE /\ valid' = IF err.class = "none" THEN valid + 1 ELSE valid
                 /\ invalid' = IF err.class = "none" THEN invalid ELSE invalid + 1
                 /\ pc' = "gen" /\ UNCHANGED <<pend, e1, e2, buf>>
       [] k = "repro" ->
            /\ e2' = err /\ buf' = cur.stream
            /\ pc' = IF SameErr(e1, err) THEN "shrinkbegin" ELSE "ret"
            /\ UNCHANGED <<pend, e1, valid, invalid>>
       [] k = "shrink1" ->
            /\ pc' = IF err.site = sErr.site /\ IsFail(err) = IsFail(sErr) THEN "shrink2" ELSE "shrink"
            /\ UNCHANGED <<pend, e1, e2, buf, valid, invalid>>
       [] k = "shrink2" -> /\ pc' = "accepting" /\ UNCHANGED <<pend, e1, e2, buf, valid, invalid>>
       [] k = "capture" -> /\ pc' = "save" /\ UNCHANGED <<pend, e1, e2, buf, valid, invalid>>
       [] k = "final"   -> /\ pc' = "failnow" /\ UNCHANGED <<pend, e1, e2, buf, valid, invalid>>
       [] OTHER -> UNCHANGED <<pc, pend, e1, e2, buf, valid, invalid>>
  /\ cache' = IF k = "shrink1" /\ ~(err.site = sErr.site /\ IsFail(err) = IsFail(sErr)) THEN cache \cup {cur.stream.id} ELSE cache
  /\ flag' = Outcome(o, flag, k = "gen")[2]
  /\ cur' = [cur EXCEPT !.kind = "done:" \o k]
  /\ UNCHANGED <<cfg, ffq, ff, seed, best, orig, sErr, shrinks, rep, tbFailed, tbFailNow>>

---------------------------------------------------------------------------
(* shrink(): begins with the pruned recording of the reproduction run *)
V_ShrinkBegin(data, err) ==
  If(pc # "shrinkbegin", "shrink_begin_order") \cup If(~SameErr(err, e2), "shrink_begin_error")
E_ShrinkBegin(data, err) ==
  /\ best' = data /\ orig' = data /\ sErr' = err /\ cache' = {} /\ shrinks' = 0 /\ pc' = "shrink"
  /\ UNCHANGED <<cfg, ffq, ff, pend, valid, invalid, seed, cur, flag, e1, e2, buf, rep, tbFailed, tbFailNow, mon>>

(* accept() rejected a candidate without running it *)
V_Reject(how, c) ==
  CASE how = "notsmaller" -> If(Less(c, best), "rejected_smaller")
    [] how = "cached"     -> If(c.id \notin cache, "rejected_uncached")
    [] OTHER -> {}

(* accept() ran the candidate twice and made it the new best *)
V_Accept(c, new, err1, err2, same) ==
  If(~Less(c, best), "accept_not_smaller")
  \cup If(err1.site # sErr.site \/ ~IsFail(err1), "accept_other_site")
  \cup If(~LessEq(new, c), "accept_grew")
  \cup If(pc # "accepting", "accept_without_second_run")
E_Accept(c, new, err1, err2, same) ==
  /\ best' = new /\ sErr' = err1 /\ shrinks' = shrinks + 1
  /\ pc' = IF same THEN "shrink" ELSE "shrinkabort"
  /\ e2' = IF same THEN e2 ELSE e2
  /\ UNCHANGED <<cfg, ffq, ff, pend, valid, invalid, seed, cur, flag, e1, buf, orig, cache, rep, tbFailed, tbFailNow, mon>>

(* shrink() returns (on fixpoint, deadline, or a flaky second run) *)
V_ShrinkEnd(data, err) ==
  If(data.id # best.id, "result_not_best")
  \cup If(~LessEq(data, orig), "result_larger")
  \cup If(pc \notin {"shrink", "shrinkabort"}, "shrink_end_order")
  \cup If(pc = "shrink" /\ ~SameErr(err, sErr), "result_error")
E_ShrinkEnd(data, err) ==
  /\ buf' = data /\ e1' = e2 /\ e2' = err /\ pc' = "ret"
  /\ UNCHANGED <<cfg, ffq, ff, pend, valid, invalid, seed, cur, flag, best, orig, sErr, cache, shrinks, rep, tbFailed, tbFailNow, mon>>

(* findBug found nothing (budget used up) *)
V_NoBug(early) ==
  If(~early /\ valid < cfg.checks /\ invalid < cfg.checks * InvalidMult, "stopped_early")
  \cup If(pend # "", "ff_ignored_silently")
  \cup If(ffq # <<>>, "gen_before_failfiles")

(* doCheck returned *)
V_DoCheckRet(r) ==
  If(r.valid # (IF mon.fromFF THEN 0 ELSE valid), "ret_valid")
  \cup If(~IsFail(e1) /\ ~IsFail(e2) /\ r.invalid # invalid, "ret_invalid")
  \cup If(IsFail(r.e1) # IsFail(e1) \/ IsFail(r.e2) # IsFail(e2), "ret_errors")
  \cup If((IsFail(e1) \/ IsFail(e2)) /\ buf.src # "seed" /\ r.buf.id # buf.id, "ret_buffer")
  \cup If(~IsFail(e1) /\ ~IsFail(e2) /\ pc \in {"gen", "ff"} /\ V_NoBug(r.early) # {}, "ret_budget")
  \cup If(r.early /\ ~cfg.deadline, "early_exit_without_deadline")   \* (only dedicated scenarios run under a test deadline)
E_DoCheckRet(r) ==
  /\ pc' = "report"
  /\ mon' = [mon EXCEPT !.early = r.early]
  /\ buf' = IF buf.src = "seed" THEN r.buf ELSE buf   \* a failure that did not reproduce is returned as the words recorded from its seed
  /\ UNCHANGED <<cfg, ffq, ff, pend, valid, invalid, seed, cur, flag, e1, e2, best, orig, sErr, cache, shrinks, rep, tbFailed, tbFailNow>>

---------------------------------------------------------------------------
(* the fail file is written *)
V_Save(file, s, ok) ==
  If(s.id # buf.id, "save_wrong_buffer")
  \cup If(cfg.nofailfile \/ mon.fromFF, "save_when_disabled")   \* -rapid.failfile does not disable saving: a failure found by the random search is new
  \cup If(pc # "save", "save_before_capture")
E_Save(file, s, ok) ==
  /\ mon' = [mon EXCEPT !.saved = IF ok THEN s ELSE @, !.savedFile = IF ok THEN file ELSE @]
  /\ pc' = "report"
  /\ UNCHANGED <<cfg, ffq, ff, pend, valid, invalid, seed, cur, flag, e1, e2, buf, best, orig, sErr, cache, shrinks, rep, tbFailed, tbFailNow>>

(* "[rapid] OK, passed N tests" *)
V_PassLogged(n) ==
  If(IsFail(e1) \/ IsFail(e2), "pass_despite_failure")
  \cup If(~(valid = cfg.checks \/ (mon.early /\ valid > 0)), "vacuous_pass")
  \cup If(n # valid, "pass_count")
  \cup If(mon.passes # valid, "pass_count")
E_PassLogged(n) ==
  /\ rep' = [NoRep EXCEPT !.kind = "ok", !.valid = n]
  /\ UNCHANGED <<pc, cfg, ffq, ff, pend, valid, invalid, seed, cur, flag, e1, e2, buf, best, orig, sErr, cache, shrinks, tbFailed, tbFailNow, mon>>

(* an Errorf on the TB: "only generated", "failed after", "panic after", "flaky test" *)
ExpectedKind == IF e1.site = e2.site /\ IsFail(e1) = IsFail(e2) THEN (IF e2.class = "stop" THEN "failed" ELSE "panic") ELSE "flaky"
V_Errorf(r) ==
  CASE r.kind = "onlygen" ->
         If(IsFail(e1) \/ IsFail(e2), "onlygen_despite_failure")
         \cup If(valid = cfg.checks, "onlygen_despite_enough")
         \cup If(r.valid # valid, "onlygen_count")
    [] r.kind \in {"failed", "panic", "flaky"} ->
         If(~IsFail(e1) /\ ~IsFail(e2), "report_without_failure")
         \cup If(r.kind # ExpectedKind, "report_kind")
         \cup If(r.kind # "flaky" /\ r.valid # (IF mon.fromFF THEN 0 ELSE valid), "report_count")
         \cup If(r.kind # "flaky" /\ r.msg # e2.msg, "report_message")
         \cup If(~mon.fromFF /\ (~r.hasseed \/ r.seed # mon.failSeed), "report_seed")
         \cup If(mon.fromFF /\ r.failfile # ff, "report_failfile")
         \cup If(~mon.fromFF /\ r.failfile # mon.savedFile, "report_failfile")
         \cup If(~mon.fromFF /\ ~cfg.nofailfile /\ mon.savedFile = "", "failure_not_saved")
    [] OTHER -> {}
E_Errorf(r) ==
  /\ rep' = IF r.kind \in {"onlygen", "failed", "panic", "flaky"} THEN r ELSE rep
  /\ tbFailed' = TRUE
  /\ UNCHANGED <<pc, cfg, ffq, ff, pend, valid, invalid, seed, cur, flag, e1, e2, buf, best, orig, sErr, cache, shrinks, tbFailNow, mon>>

(* The verbose protocol (-rapid.v, -rapid.log): every random test case is announced with its number and seed before it runs and
   closed with its outcome afterwards.  Binding obligations (no listed property names these lines); the seed is the one the
   schedule gives this test case -- what -rapid.seed reproduces it with. *)
V_TestStart(n, sd) ==
  If(cur.kind # "gen" \/ pc # "running" \/ cur.obs.ended # "running", "vlog_order")
  \cup If(n # valid + invalid + 1, "vlog_index")
  \cup If(sd # seed, "vlog_seed")
V_TestEnd(n, res) ==
  If(cur.kind # "done:gen", "vlog_order")
  \cup If(res = "failed" /\ (~IsFail(e1) \/ n # valid + invalid + 1), "vlog_result")
  \cup If(res = "ok" /\ (IsFail(e1) \/ mon.lastClass # "none" \/ n # valid + invalid), "vlog_result")
  \cup If(res = "invalid" /\ (IsFail(e1) \/ mon.lastClass # "invalid" \/ n # valid + invalid), "vlog_result")

(* the TB's draw log line during the final replay *)
E_DrawLogged(label, val) ==
  /\ mon' = [mon EXCEPT !.tbDraws = Append(@, <<label, val>>)]
  /\ UNCHANGED <<pc, cfg, ffq, ff, pend, valid, invalid, seed, cur, flag, e1, e2, buf, best, orig, sErr, cache, shrinks, rep, tbFailed, tbFailNow>>

V_FailNow == If(~tbFailed, "failnow_without_failure")
E_FailNow ==
  /\ tbFailNow' = TRUE /\ tbFailed' = TRUE /\ pc' = "done"
  /\ UNCHANGED <<cfg, ffq, ff, pend, valid, invalid, seed, cur, flag, e1, e2, buf, best, orig, sErr, cache, shrinks, rep, mon>>

(* Check returned (or ended in FailNow): what the caller can see *)
\* MakeCheck under a real *testing.T: what the TB was told is not observable, only the sub-test's status
V_RunEndNoTB(failed) ==
  If(mon.anySig /\ ~failed, "falsification_lost")
  \cup If((IsFail(e1) \/ IsFail(e2)) /\ ~failed, "falsification_lost")
  \cup If(~failed /\ ~(valid = cfg.checks \/ (mon.early /\ valid > 0)), "vacuous_pass")
  \cup If(~failed /\ mon.gens # valid + invalid, "extra_invocations")
  \cup If(failed /\ ~IsFail(e1) /\ ~IsFail(e2) /\ valid = cfg.checks, "onlygen_despite_enough")

V_RunEnd(failed, failnow) ==
  If(mon.anySig /\ ~failed, "falsification_lost")
  \cup If((IsFail(e1) \/ IsFail(e2)) /\ ~failed, "falsification_lost")
  \cup If(failed /\ ~failnow, "no_failnow")
  \cup If(~failed /\ rep.kind # "ok", "pass_without_verdict")
  \cup If(failed /\ rep.kind \in {"ok", "none"}, "failed_without_report")
  \cup If(rep.kind \in {"failed", "panic", "flaky"} /\ ~mon.realFail, "reported_failure_never_happened")
  \cup If(rep.kind \in {"failed", "panic"} /\ ~mon.finalRan, "no_final_replay")
  \cup If(rep.kind \in {"failed", "panic"} /\ mon.finalRan /\ mon.finalObs.sig = "none", "final_replay_passes")
  \cup If(rep.kind \in {"failed", "panic"} /\ mon.finalRan /\ mon.finalObs.sig # "none"
            /\ mon.finalObs.msgs # {} /\ "" \notin mon.finalObs.msgs /\ rep.msg \notin mon.finalObs.msgs, "final_replay_other_failure")
  \cup If(rep.kind \in {"failed", "panic"} /\ mon.finalRan /\ mon.finalObs.sig # "none"
            /\ Expect(mon.finalObs).site # Expect(mon.firstObs).site, "failure_site_changed")
  \cup If(rep.kind \in {"failed", "panic"} /\ mon.finalRan /\ mon.tbDraws # mon.finalObs.draws, "draws_mislogged")
  \cup If(rep.kind = "flaky", "flaky_report")
  \cup If(rep.kind = "ok" /\ mon.gens # valid + invalid, "extra_invocations")
  \cup If(pend # "", "ff_ignored_silently")

(*****************************************************************************
 Obligation names and the listed property each one decides (verdict
 obligations).  Names not listed here are binding obligations: they say the
 code still takes the specification's steps; losing one is reported, never
 alarmed.
 *****************************************************************************)
VerdictOf ==
  [ C01 |-> {"final_wrong_buffer", "result_not_best", "save_wrong_buffer", "reported_failure_never_happened",
             "no_final_replay", "final_replay_passes", "final_replay_other_failure", "draws_mislogged",
             "flaky_report", "persist_mismatch", "report_message", "report_without_failure", "phantom_failure",
             "check_crashed", "report_failfile"},   \* (Check dying of an internal error while it handles a falsification presents no test case at all)
    C02 |-> {"lost_failure", "falsification_lost", "skip_misjudged", "pass_despite_failure", "failure_class"},
    C05 |-> {"accept_not_smaller", "accept_other_site", "accept_grew", "result_larger", "failure_site_changed",
             "result_not_best", "try_not_smaller", "final_replay_passes", "final_replay_other_failure", "flaky_report", "check_crashed"},
    C06 |-> {"ff_not_found", "gen_before_failfiles", "failure_not_saved", "persist_mismatch", "replay_not_first",
             "replay_differs", "save_wrong_buffer", "save_before_capture", "no_failfile_written", "failfile_name", "ff_order", "ff_explicit_not_first",
             "report_failfile", "check_crashed"},
    C07 |-> {"report_seed", "seed_replay_differs", "seed_run_differs", "repro_seed"},
    C09 |-> {"gen_after_failure", "gen_beyond_budget", "vacuous_pass", "pass_count", "no_failnow", "stopped_early",
             "onlygen_despite_enough", "extra_invocations", "gen_before_failfiles", "ff_not_found", "pass_without_verdict",
             "failed_without_report", "onlygen_count", "ret_budget", "early_exit_without_deadline", "early_exit_too_early",
             "skip_misjudged"},   \* (a skipped test case counted as a valid one, or the other way round)
    C11 |-> {"phantom_failure", "lost_failure", "reported_failure_never_happened", "flaky_report", "skip_misjudged",
             "label_carried_over", "failure_message", "dead_context_in_body", "context_outlives_case",
             "final_replay_passes",    \* (the test case finally presented as falsifying is one in which nothing fails)
             "report_failfile"},       \* (... or the report names another file than the one whose replay failed)
    C17 |-> {"ff_ignored_silently", "ff_changed_verdict", "ff_changed_cases", "ff_after_failure", "ff_order", "unusable_file_used",
             "check_crashed", "ff_phantom_failure", "ff_not_found"} ]   \* (an unusable file must not hide a usable one either)
=============================================================================
