SPECIFICATION Spec
CONSTANTS
 Design = "inv_after_reject"
 Tries = 3
 MaxSteps = 6
 HasInv = TRUE
INVARIANTS InvFirst InvAfterCompleted NoInvAfterSkip StopAtFirstFalsification SkippedNotCounted GivesUp
PROPERTY Terminates
CHECK_DEADLOCK FALSE
