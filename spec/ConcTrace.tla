------------------------------ MODULE ConcTrace ------------------------------
(* C14 / C15 on recorded concurrent executions.  Events carry the goroutine
   (g) that emitted them; the order in the trace is the order in which the
   recorder's mutex was taken, which is only used for per-goroutine program
   order and for set-valued facts (which contexts were observed, which
   cleanups were registered and run), never to order two goroutines.

   Per invocation of the property function:
     - all goroutines observe one and the same live context;
     - a failure signalled from any goroutine falsifies the test case;
     - Failed() is true for a goroutine that has signalled a failure itself;
     - every registered cleanup runs exactly once;
   and no data race is reported by the Go race detector inside rapid (race
   reports are appended to the trace by the driver as `race` events).
   For C15: a check sharing generators with concurrently running checks draws
   exactly what it draws alone (`solo` events give the reference). *)
EXTENDS Integers, Sequences, FiniteSets, TLC, Json

CONSTANTS Property
Trace == ndJsonDeserialize("trace.ndjson")

VARIABLES l, scen, viol, ctxs, regs, runs, sig, gfailed, open, solo
vars == <<l, scen, viol, ctxs, regs, runs, sig, gfailed, open, solo>>

Ev == Trace[l]
Is(e) == l <= Len(Trace) /\ Trace[l].ev = e
Adv == l' = l + 1
If(c, name) == IF c THEN {name} ELSE {}

VerdictOf ==
  [ C14 |-> {"contexts_differ", "lost_failure", "failed_not_visible", "cleanup_lost", "cleanup_twice", "data_race", "context_dead_during_call", "hangs",
             "context_live_at_cleanup"},
    C15 |-> {"data_race", "draws_differ_when_shared", "shared_check_crashed", "value_modified_after_draw"} ]
Verdicts == IF Property = "ALL" THEN UNION { VerdictOf[p] : p \in DOMAIN VerdictOf } ELSE VerdictOf[Property]

Init == /\ l = 1 /\ scen = [id |-> ""] /\ viol = {} /\ ctxs = {} /\ regs = {} /\ runs = <<>> /\ sig = FALSE /\ gfailed = {} /\ open = FALSE
        /\ solo = [x \in {} |-> 0]

ScenBegin == /\ Is("scen.begin") /\ Adv /\ scen' = Ev /\ viol' = {} /\ ctxs' = {} /\ regs' = {} /\ runs' = <<>> /\ sig' = FALSE /\ gfailed' = {}
             /\ open' = FALSE /\ solo' = [x \in {} |-> 0]
ScenEnd == /\ Is("scen.end") /\ Adv
           /\ IF viol \cap Verdicts = {} THEN TRUE ELSE PrintT(<<"VIOLATED", scen.id, viol \cap Verdicts, l>>)
           /\ UNCHANGED <<scen, viol, ctxs, regs, runs, sig, gfailed, open, solo>>

OnceBegin == /\ Is("h.once.begin") /\ Adv /\ ctxs' = {} /\ regs' = {} /\ runs' = <<>> /\ sig' = FALSE /\ gfailed' = {} /\ open' = TRUE
             /\ UNCHANGED <<scen, viol, solo>>
InvEnd == /\ Is("inv.end") /\ Adv /\ open' = FALSE /\ UNCHANGED <<scen, viol, ctxs, regs, runs, sig, gfailed, solo>>

Ctx == /\ Is("ctx") /\ Adv
       /\ IF open /\ Ev.where \notin {"at-cleanup", "after"}
          THEN /\ ctxs' = ctxs \cup {Ev.id}
               /\ viol' = viol \cup If(Ev.err # "nil", "context_dead_during_call") \cup If(ctxs \ {Ev.id} # {}, "contexts_differ")
          ELSE IF ~open /\ Ev.where = "in-cleanup"
          \* a cleanup function asks for the context: cleanup() has cancelled and cleared it, and nothing may have created another one since
          \* (Conc!AllCancelled: a goroutine that had seen "not cleaning up" before cleanup() began must look again under the lock)
          THEN /\ ctxs' = ctxs /\ viol' = viol \cup If(Ev.err = "nil", "context_live_at_cleanup")
          ELSE IF ~open /\ Ev.where \notin {"at-cleanup", "after"} /\ Ev.err = "nil"
          \* a goroutine still running after the property function has returned (joined by a cleanup) is handed a LIVE context: it can only be the
          \* invocation's one (not yet cancelled) -- never a second one
          THEN /\ ctxs' = ctxs \cup {Ev.id}
               /\ viol' = viol \cup If(ctxs # {} /\ Ev.id \notin ctxs, "contexts_differ")
          ELSE /\ ctxs' = ctxs /\ viol' = viol
       /\ UNCHANGED <<scen, regs, runs, sig, gfailed, open, solo>>

Call == /\ Is("call") /\ Adv
        /\ IF Ev.m \in {"errorf", "error", "fail"}
           THEN /\ sig' = TRUE /\ gfailed' = gfailed \cup {Ev.g}
           ELSE /\ sig' = (sig \/ Ev.m \in {"fatalf", "fatal", "failnow", "panic", "rterr"}) /\ gfailed' = gfailed
        /\ UNCHANGED <<scen, viol, ctxs, regs, runs, open, solo>>

FailedRead == /\ Is("failed.read") /\ Adv
              /\ viol' = viol \cup If(Ev.g \in gfailed /\ ~Ev.v, "failed_not_visible")
              /\ UNCHANGED <<scen, ctxs, regs, runs, sig, gfailed, open, solo>>

Reg == /\ Is("cleanup.reg") /\ Adv /\ regs' = regs \cup {Ev.id} /\ UNCHANGED <<scen, viol, ctxs, runs, sig, gfailed, open, solo>>
Run == /\ Is("cleanup.run") /\ Adv /\ runs' = Append(runs, Ev.id) /\ UNCHANGED <<scen, viol, ctxs, regs, sig, gfailed, open, solo>>

OnceEnd ==
  /\ Is("h.once.end") /\ Adv
  /\ viol' = viol \cup If(sig /\ Ev.err.class \notin {"stop", "panic"}, "lost_failure")
                  \cup If(\E id \in regs : \A i \in 1..Len(runs) : runs[i] # id, "cleanup_lost")
                  \cup If(\E i, j \in 1..Len(runs) : i # j /\ runs[i] = runs[j], "cleanup_twice")
  /\ UNCHANGED <<scen, ctxs, regs, runs, sig, gfailed, open, solo>>

\* a data race reported by the race detector with a rapid (non-test) frame on top of both stacks
Race == /\ Is("race") /\ Adv
        /\ viol' = viol \cup If(Ev.rapid, "data_race") \cup If(~Ev.rapid, "race_outside_rapid")
        /\ UNCHANGED <<scen, ctxs, regs, runs, sig, gfailed, open, solo>>

\* C15: the draws of a check that ran alone, and of the same check sharing its generators with others
\* (the shared draws come first -- process-wide caches must be first used concurrently -- the reference afterwards)
Shared == /\ Is("shared") /\ Adv
          /\ solo' = [x \in DOMAIN solo \cup {Ev.key} |-> IF x = Ev.key THEN [d |-> Ev.draws, c |-> Ev.crashed] ELSE solo[x]]
          \* (the value was looked at again after all other draws: a drawn value belongs to the check that drew it)
          /\ viol' = viol \cup If("stable" \in DOMAIN Ev /\ ~Ev.stable, "value_modified_after_draw")
          /\ UNCHANGED <<scen, ctxs, regs, runs, sig, gfailed, open>>
\* (a check that crashes in the same way when it runs alone -- e.g. a filter that finds nothing -- is the generator's own behaviour)
Solo == /\ Is("solo") /\ Adv
        /\ viol' = viol \cup If(Ev.key \in DOMAIN solo /\ solo[Ev.key].d # Ev.draws /\ ~Ev.crashed /\ ~solo[Ev.key].c, "draws_differ_when_shared")
                        \cup If(Ev.key \in DOMAIN solo /\ solo[Ev.key].c /\ ~Ev.crashed, "shared_check_crashed")
        /\ UNCHANGED <<scen, ctxs, regs, runs, sig, gfailed, open, solo>>

Handled == {"hang", "scen.begin", "scen.end", "h.once.begin", "inv.end", "ctx", "call", "failed.read", "cleanup.reg", "cleanup.run", "h.once.end", "race",
            "solo", "shared"}
\* the watchdog saw an invocation that did not end (e.g. a deadlock between the check and a goroutine of the property)
Hang == /\ Is("hang") /\ Adv /\ viol' = viol \cup {"hangs"} /\ UNCHANGED <<scen, ctxs, regs, runs, sig, gfailed, open, solo>>

Other == /\ l <= Len(Trace) /\ Trace[l].ev \notin Handled /\ Adv /\ UNCHANGED <<scen, viol, ctxs, regs, runs, sig, gfailed, open, solo>>
Next == Hang \/ ScenBegin \/ ScenEnd \/ OnceBegin \/ InvEnd \/ Ctx \/ Call \/ FailedRead \/ Reg \/ Run \/ OnceEnd \/ Race \/ Solo \/ Shared \/ Other
Spec == Init /\ [][Next]_vars

HW == /\ TLCSet(1, IF l > TLCGet(1) THEN l ELSE TLCGet(1))
      /\ TLCSet(2, TLCGet(2) \cup (viol \ Verdicts))
ASSUME TLCSet(1, 0) /\ TLCSet(2, {})
Accepted == /\ PrintT(<<"BINDING_LOST", TLCGet(2)>>)
            /\ IF TLCGet(1) = Len(Trace) + 1 THEN PrintT(<<"TRACE_ACCEPTED", Len(Trace)>>)
               ELSE PrintT(<<"TRACE_REJECTED_AT", TLCGet(1), Trace[TLCGet(1)].ev, Trace[TLCGet(1)].seq>>) /\ FALSE
=============================================================================
