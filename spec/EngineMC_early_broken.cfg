SPECIFICATION Spec
CONSTANTS
  Design = "early_drops_failure"
  InvalidMult = 2
  MaxRank = 1
  Checks = 2
  NoDeadline = FALSE
  Files = {}
  Less <- MCLess
  BehSel <- BehSelCore
INVARIANTS NoViolation
CHECK_DEADLOCK FALSE
