SPECIFICATION Spec
CONSTANTS
 Design = "small_direct"
 Chunks = 1
INVARIANTS AtomicVisible TmpDisjoint Saved
PROPERTY Finishes
CHECK_DEADLOCK FALSE
