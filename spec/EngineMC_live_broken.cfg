SPECIFICATION Spec
CONSTANTS
  Design = "neverends"
  InvalidMult = 2
  MaxRank = 2
  Checks = 1
  NoDeadline = TRUE
  Files = {}
  Less <- MCLess
  BehSel <- BehSelCore
PROPERTY Terminates
CHECK_DEADLOCK FALSE
