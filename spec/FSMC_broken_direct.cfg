SPECIFICATION Spec
CONSTANTS
 Design = "direct"
 Chunks = 3
INVARIANTS AtomicVisible TmpDisjoint Saved
PROPERTY Finishes
CHECK_DEADLOCK FALSE
