------------------------------ MODULE LazyInit ------------------------------
(* Lazily initialised state of generators shared by concurrent checks
   (generator.go Generator.String/value, combinators.go deferredGen,
   strings.go sync.Map caches): Readers call value() concurrently; value()
   needs the label (str) and, for Deferred, the inner generator g.
   Design = "repaired": label through String() (sync.Once), inner generator
   through sync.Once; caches are load-compute-store of an idempotent value.
   Design = "pinned" (before fix 16a6f86): value() reads str without
   synchronisation while String() writes it; g is assigned unsynchronised.
   Accesses are begin/end pairs so that a data race is a state predicate. *)
EXTENDS Integers, FiniteSets, TLC

CONSTANTS Design, Procs

VARIABLES pc, acc, strSet, gSet, onceStr, onceG, label

vars == <<pc, acc, strSet, gSet, onceStr, onceG, label>>

Init == /\ pc = [p \in Procs |-> "start"] /\ acc = [v \in {"str", "g"} |-> {}] /\ strSet = FALSE /\ gSet = FALSE
        /\ onceStr = "idle" /\ onceG = "idle" /\ label = [p \in Procs |-> "unset"]

Begin(v, p, m) == acc' = [acc EXCEPT ![v] = @ \cup {<<p, m>>}]
End(v, p, m) == acc' = [acc EXCEPT ![v] = @ \ {<<p, m>>}]

\* a process either calls String() or value()
Start(p) == /\ pc[p] = "start" /\ \E nxt \in {"string", "value"} : pc' = [pc EXCEPT ![p] = nxt]
            /\ UNCHANGED <<acc, strSet, gSet, onceStr, onceG, label>>

\* String(): strOnce.Do(func() { g.str = ... })
StringDo(p) ==
  /\ pc[p] = "string"
  /\ \/ /\ onceStr = "idle" /\ onceStr' = "running" /\ pc' = [pc EXCEPT ![p] = "string_w"] /\ Begin("str", p, "w") /\ UNCHANGED <<strSet, gSet, onceG, label>>
     \/ /\ onceStr = "done" /\ pc' = [pc EXCEPT ![p] = "done"] /\ UNCHANGED <<acc, strSet, gSet, onceStr, onceG, label>>
StringW(p) == /\ pc[p] = "string_w" /\ strSet' = TRUE /\ End("str", p, "w") /\ onceStr' = "done" /\ pc' = [pc EXCEPT ![p] = "done"]
              /\ UNCHANGED <<gSet, onceG, label>>

\* value(): needs the label
Value(p) ==
  /\ pc[p] = "value"
  /\ IF Design = "pinned"
     THEN /\ pc' = [pc EXCEPT ![p] = "label_r"] /\ Begin("str", p, "r") /\ UNCHANGED <<strSet, gSet, onceStr, onceG, label>>
     ELSE \/ /\ onceStr = "idle" /\ onceStr' = "running" /\ pc' = [pc EXCEPT ![p] = "vstring_w"] /\ Begin("str", p, "w") /\ UNCHANGED <<strSet, gSet, onceG, label>>
          \/ /\ onceStr = "done" /\ pc' = [pc EXCEPT ![p] = "deferred"] /\ label' = [label EXCEPT ![p] = "set"] /\ UNCHANGED <<acc, strSet, gSet, onceStr, onceG>>
VStringW(p) == /\ pc[p] = "vstring_w" /\ strSet' = TRUE /\ End("str", p, "w") /\ onceStr' = "done" /\ pc' = [pc EXCEPT ![p] = "deferred"]
               /\ label' = [label EXCEPT ![p] = "set"] /\ UNCHANGED <<gSet, onceG>>
LabelR(p) == /\ pc[p] = "label_r" /\ End("str", p, "r") /\ label' = [label EXCEPT ![p] = IF strSet THEN "set" ELSE "empty"]
             /\ pc' = [pc EXCEPT ![p] = "deferred"] /\ UNCHANGED <<strSet, gSet, onceStr, onceG>>

\* deferredGen.value(): if g.g == nil { g.g = g.fn() }
Deferred(p) ==
  /\ pc[p] = "deferred"
  /\ IF Design = "pinned"
     THEN /\ pc' = [pc EXCEPT ![p] = IF gSet THEN "done" ELSE "g_w"] /\ (IF gSet THEN UNCHANGED acc ELSE Begin("g", p, "w"))
          /\ UNCHANGED <<strSet, gSet, onceStr, onceG, label>>
     ELSE \/ /\ onceG = "idle" /\ onceG' = "running" /\ pc' = [pc EXCEPT ![p] = "g_w"] /\ Begin("g", p, "w") /\ UNCHANGED <<strSet, gSet, onceStr, label>>
          \/ /\ onceG = "done" /\ pc' = [pc EXCEPT ![p] = "done"] /\ UNCHANGED <<acc, strSet, gSet, onceStr, onceG, label>>
GW(p) == /\ pc[p] = "g_w" /\ gSet' = TRUE /\ End("g", p, "w") /\ onceG' = (IF Design = "pinned" THEN onceG ELSE "done")
         /\ pc' = [pc EXCEPT ![p] = "done"] /\ UNCHANGED <<strSet, onceStr, label>>

Next == \E p \in Procs : Start(p) \/ StringDo(p) \/ StringW(p) \/ Value(p) \/ VStringW(p) \/ LabelR(p) \/ Deferred(p) \/ GW(p)
Spec == Init /\ [][Next]_vars

NoRace == \A v \in DOMAIN acc : ~\E a, b \in acc[v] : a[1] # b[1] /\ "w" \in {a[2], b[2]}
\* the label a check records does not depend on what other checks (or String() callers) did before
SameLabel == \A p, q \in Procs : (label[p] # "unset" /\ label[q] # "unset") => label[p] = label[q]
=============================================================================
