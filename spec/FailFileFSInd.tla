--------------------------- MODULE FailFileFSInd ---------------------------
(* Unbounded safety of the save protocol: for EVERY number of write operations
   (Chunks \in Nat) the invariant AtomicVisible holds in every reachable state,
   shown with Apalache by an inductive invariant:
     apalache-mc check --cinit=CInit --init=Init    --inv=IndInv --length=0 FailFileFSInd.tla
     apalache-mc check --cinit=CInit --init=IndInit --inv=IndInv --length=1 FailFileFSInd.tla
     apalache-mc check --cinit=CInit --init=IndInit --inv=AtomicVisible --length=0 FailFileFSInd.tla
   (TLC checks the same protocol exhaustively for Chunks \in {0, 1, 3} and the wrong variants.) *)
EXTENDS FailFileFS

CInit == Design = "code" /\ Chunks \in Nat

CInitDirect == Design = "direct" /\ Chunks \in Nat
CInitRename == Design = "rename_first" /\ Chunks \in Nat

PCs == {"mkdir", "create", "write", "close", "rename", "done", "dead"}

IndInv ==
  /\ pc \in PCs /\ crashed \in BOOLEAN /\ cur \in Names \cup {"none"}
  /\ dir \in [Names -> Int] /\ \A n \in Names : dir[n] >= Absent /\ dir[n] <= Chunks
  /\ dir["tmpglob"] = Absent
  /\ dir["final"] \in {Absent, Chunks}
  /\ pc \in {"mkdir", "create"} => dir["tmp"] = Absent /\ dir["final"] = Absent /\ cur = "none"
  /\ pc = "write" => cur = "tmp" /\ dir["tmp"] >= 0 /\ dir["final"] = Absent
  /\ pc \in {"close", "rename"} => cur = "tmp" /\ dir["tmp"] = Chunks /\ dir["final"] = Absent
  /\ pc = "done" => cur = "final" /\ dir["final"] = Chunks /\ dir["tmp"] = Absent
  /\ pc = "dead" <=> crashed

IndInit == IndInv
=============================================================================
