SPECIFICATION Spec
CONSTANTS
  Design = "pinned"
  InvalidMult = 2
  MaxRank = 2
  Checks = 2
  NoDeadline = FALSE
  Files = {"f1"}
  Less <- MCLess
  BehSel <- BehSelAll
INVARIANTS NoViolation C01_Real C01_NoPhantom C01_NotFlaky C02_NoLost C09_Work C09_FailNow C05_Smaller
CHECK_DEADLOCK FALSE
