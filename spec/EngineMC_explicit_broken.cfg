SPECIFICATION Spec
CONSTANTS
  Design = "explicit_last"
  InvalidMult = 2
  MaxRank = 1
  Checks = 1
  NoDeadline = FALSE
  Files = {"f1", "f2"}
  Less <- MCLess
  BehSel <- BehSelCore
INVARIANTS NoViolation
CHECK_DEADLOCK FALSE
