CONSTANTS Design = "code" W = 8
CONSTANT Cond <- CondThr
SPECIFICATION Spec
INVARIANTS Exact Sound
CHECK_DEADLOCK FALSE
