CONSTANTS Design = "code" W = 8
SPECIFICATION Spec
INVARIANTS Exact Sound
CHECK_DEADLOCK FALSE
