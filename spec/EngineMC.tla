----------------------------- MODULE EngineMC -----------------------------
(* Bounded design model of the Check engine.  The mechanism (what the engine
   does next, given its control point) is written out here; every step goes
   through the V_/E_ operators of Engine, and the obligations a step violates
   accumulate in `viol`.  TLC explores: every property (a function from
   streams to behaviours, chosen lazily), every random stream per iteration,
   every order in which the shrinker may try smaller candidates, a deadline at
   every point, 0..2 fail files of every kind, with and without -nofailfile.

   Design = "repaired": NoViolation must hold.
   Design = "pinned"  : TLC must find violations (lost / misattributed
                        non-fatal failures, unreproducible pruned recordings,
                        silently ignored fail files) -- the non-vacuity test. *)
EXTENDS Engine

CONSTANTS MaxRank,     \* streams are ranks 0..MaxRank in short-lex order
          Checks,      \* -rapid.checks
          Files,       \* fail files that may be present
          NoDeadline,  \* TRUE: minimization has no time limit (it must still terminate: liveness configuration)
          BehSel       \* which behaviours the property may show: set of <<sig, ended, nfw, site>>

VARIABLES beh,         \* rank -> behaviour of the property on that stream (chosen on first use)
          finfo,       \* file -> [usable, rank]
          genRank      \* rank of the stream of the current random test case

mvars == <<beh, finfo, genRank>>
vars == <<evars, mvars>>

Ranks == 0..MaxRank
Stream(r) == [id |-> ToString(r), src |-> "buf", rank |-> r]
MCLess(a, b) == a.rank < b.rank

Obs(sig, site, ended, nfw) == [sig |-> sig, site |-> site, msg |-> site, ended |-> ended, nfw |-> nfw, draws |-> <<>>, msgs |-> IF sig = "none" THEN {} ELSE {site}, inInv |-> FALSE, invSkip |-> FALSE]
BehAll == { Obs("none", "", "ret", ""), Obs("none", "", "skip", ""),
            Obs("fatal", "A", "unwind", ""), Obs("fatal", "B", "unwind", ""), Obs("panic", "P", "unwind", ""),
            Obs("nonfatal", "NF", "ret", "body"), Obs("nonfatal", "NF", "skip", "body"),
            Obs("nonfatal", "NF", "ret", "cleanup"), Obs("nonfatal", "NF", "ret", "custom") }
\* the behaviours a configuration explores (by signal kind and place, see the cfg files)
BehSet == { b \in BehAll : <<b.sig, b.ended, b.nfw, b.site>> \in BehSel }

Unset == [sig |-> "unset"]
BehSelAll == { <<b.sig, b.ended, b.nfw, b.site>> : b \in BehAll }
BehSelCore == { <<"none", "ret", "", "">>, <<"none", "skip", "", "">>, <<"fatal", "unwind", "", "A">>, <<"fatal", "unwind", "", "B">>,
                <<"nonfatal", "ret", "body", "NF">>, <<"nonfatal", "skip", "body", "NF">> }
Do(V, E) == E /\ viol' = viol \cup V

Init ==
  /\ beh = [r \in Ranks |-> Unset]
  /\ finfo \in [Files -> [usable : BOOLEAN, rank : Ranks]]
  /\ genRank = 0
  /\ \E nff \in BOOLEAN, xf \in {""} \cup Files, dl \in BOOLEAN :     \* -rapid.nofailfile; -rapid.failfile naming one of the files; a test deadline
       /\ pc = "list"
       /\ cfg = [checks |-> Checks, base |-> <<0, 0, 0, 1>>, nofailfile |-> nff, failfile |-> xf, expectFF |-> Files, mustFF |-> Files, deadline |-> dl]
  /\ ffq = <<>> /\ ff = "" /\ pend = "" /\ valid = 0 /\ invalid = 0 /\ seed = <<0, 0, 0, 1>> /\ cur = NoCur /\ flag = FALSE
  /\ e1 = NoErr /\ e2 = NoErr /\ buf = NoStream /\ best = NoStream /\ orig = NoStream /\ sErr = NoErr /\ cache = {}
  /\ shrinks = 0 /\ rep = NoRep /\ tbFailed = FALSE /\ tbFailNow = FALSE /\ viol = {}
  /\ mon = [anySig |-> FALSE, realFail |-> FALSE, firstObs |-> NoObs, finalObs |-> NoObs,
            tbDraws |-> <<>>, gens |-> 0, passes |-> 0, fromFF |-> FALSE, failSeed |-> Zero,
            iters |-> 0, saved |-> NoStream, savedFile |-> "", finalRan |-> FALSE, invs |-> 0,
            firstKind |-> "none", firstStream |-> NoStream, failDraws |-> <<>>, early |-> FALSE, ffStreams |-> {}, lastClass |-> "none"]

\* all orders of the files present
SeqsOf(S) == { s \in [1..Cardinality(S) -> S] : \A i, j \in 1..Cardinality(S) : i # j => s[i] # s[j] }

\* a recording of a run on rank r prunes to some rank <= r; in the repaired design
\* the pruned recording replays to the same behaviour (C04), in the pinned one it may not
PrunesTo(r, q) == q <= r /\ (Design # "pinned" => (beh[q].sig = "unset" \/ beh[q] = beh[r]))

\* the explicit file first, then the discovered ones in any order (pinned: no different)
List == /\ pc = "list"
        /\ \E s \in SeqsOf(Files) : ((IF cfg.failfile = "" \/ Design = "explicit_last" THEN TRUE ELSE s[1] = cfg.failfile) /\ Do(V_FFList(s), E_FFList(s, seed)))
        /\ UNCHANGED mvars

\* pinned: a fail file whose test case now passes is dropped without a log line
LogIgnored == /\ pc = "ff" /\ pend # ""
              /\ ~(Design = "pinned" /\ cur.kind = "done:ff1" /\ Expect(cur.obs).class = "none")
              /\ Do(V_FFIgnoreLogged, E_FFIgnoreLogged) /\ UNCHANGED mvars

PendHandled == pend = "" \/ (Design = "pinned" /\ cur.kind = "done:ff1" /\ Expect(cur.obs).class = "none")

Load == /\ pc = "ff" /\ PendHandled /\ ffq # <<>>
        /\ Do(V_FFLoad(Head(ffq), finfo[Head(ffq)].usable), E_FFLoad(Head(ffq), finfo[Head(ffq)].usable))
        /\ UNCHANGED mvars

BeginFF == /\ pc \in {"ff1", "ff2"}
           /\ Do(V_Begin(pc, Stream(finfo[ff].rank), seed), E_Begin(pc, Stream(finfo[ff].rank), seed))
           /\ UNCHANGED mvars

BeginGen == /\ pc \in {"ff", "gen"} /\ PendHandled /\ ffq = <<>>
            /\ valid < cfg.checks /\ invalid < cfg.checks * InvalidMult
            /\ \E r \in Ranks :
                 /\ genRank' = r
                 /\ Do(V_Begin("gen", Stream(r), SeedOfIter), E_Begin("gen", Stream(r), SeedOfIter))
            /\ UNCHANGED <<beh, finfo>>

BeginRepro == /\ pc = "repro"
              /\ Do(V_Begin("repro", Stream(genRank), seed), E_Begin("repro", Stream(genRank), seed))
              /\ UNCHANGED mvars

\* the property function runs: its behaviour on this stream is fixed at first use
Run == /\ cur.kind \in {"ff1", "ff2", "gen", "repro", "shrink1", "shrink2", "capture", "final"}
       /\ cur.obs.ended = "running"
       /\ LET r == cur.stream.rank IN
          IF beh[r].sig = "unset"
          THEN \E b \in BehSet : beh' = [beh EXCEPT ![r] = b] /\ E_Ran(b)
          ELSE beh' = beh /\ E_Ran(beh[r])
       /\ viol' = viol /\ UNCHANGED <<finfo, genRank>>

Return == /\ cur.kind \in {"ff1", "ff2", "gen", "repro", "shrink1", "shrink2", "capture", "final"}
          /\ cur.obs.ended # "running"
          /\ LET err == Outcome(cur.obs, flag, cur.kind = "gen")[1] IN
             /\ Do(V_Ret(err), E_Ret(err))
          /\ UNCHANGED mvars

LastErr == Outcome(cur.obs, FALSE, FALSE)[1]

\* the pruned recording is a stream of its own; in the repaired design it replays like its source
PruneBeh(r, q) == IF Design # "pinned" /\ beh[q].sig = "unset" THEN [beh EXCEPT ![q] = beh[r]] ELSE beh

SBegin == /\ pc = "shrinkbegin"
          /\ \E q \in Ranks : /\ PrunesTo(genRank, q)
                              /\ beh' = PruneBeh(genRank, q)
                              /\ Do(V_ShrinkBegin(Stream(q), e2), E_ShrinkBegin(Stream(q), e2))
          /\ UNCHANGED <<finfo, genRank>>

Try == /\ pc = "shrink"
       /\ \E c \in Ranks : /\ c < best.rank /\ ToString(c) \notin cache
                           /\ Do(V_Begin("shrink1", Stream(c), seed), E_Begin("shrink1", Stream(c), seed))
       /\ UNCHANGED mvars

Second == /\ pc = "shrink2"
          /\ Do(V_Begin("shrink2", cur.stream, seed), E_Begin("shrink2", cur.stream, seed))
          /\ UNCHANGED mvars

Acc == /\ pc = "accepting"
       /\ \E q \in Ranks :
            /\ PrunesTo(cur.stream.rank, q)
            /\ beh' = PruneBeh(cur.stream.rank, q)
            /\ LET err == LastErr IN   \* deterministic property: both runs give the same error
               Do(V_Accept(cur.stream, Stream(q), err, err, TRUE), E_Accept(cur.stream, Stream(q), err, err, TRUE))
       /\ UNCHANGED <<finfo, genRank>>

\* deadline reached or nothing left to try: enabled in every shrinker state -- unless the configuration has no time limit (NoDeadline),
\* in which case the shrinker only ends when no untried smaller candidate is left
NothingLeft == \A c \in Ranks : c < best.rank => ToString(c) \in cache
SEnd == /\ pc = "shrink"
        /\ Design # "neverends"          \* (wrong variant for the liveness configuration's non-vacuity test: the shrinker has no way out)
        /\ NoDeadline => NothingLeft
        /\ Do(V_ShrinkEnd(best, sErr), E_ShrinkEnd(best, sErr))
        /\ UNCHANGED mvars

DRet == /\ \/ pc = "ret"
           \/ /\ pc \in {"ff", "gen"} /\ PendHandled /\ ffq = <<>>
              /\ ~(valid < cfg.checks /\ invalid < cfg.checks * InvalidMult)
        /\ LET r == [valid |-> IF mon.fromFF THEN 0 ELSE valid, invalid |-> invalid, early |-> FALSE, e1 |-> e1, e2 |-> e2, buf |-> buf]
           IN Do(V_DoCheckRet(r), E_DoCheckRet(r))
        /\ UNCHANGED mvars

\* Under a test deadline findBug may stop early, before it starts the next random test case (never after one that failed: a failing
\* case leaves the loop at once).  Design "early_drops_failure": the test is made after the case has run, before its result is looked at.
EarlyExit == /\ cfg.deadline /\ valid + invalid > 0
             /\ \/ /\ pc \in {"ff", "gen"} /\ PendHandled /\ ffq = <<>>
                   /\ valid < cfg.checks /\ invalid < cfg.checks * InvalidMult
                \/ Design = "early_drops_failure" /\ pc = "repro"
             /\ LET r == [valid |-> valid, invalid |-> invalid, early |-> TRUE, e1 |-> NoErr, e2 |-> NoErr, buf |-> NoStream]
                IN IF pc = "repro"
                   THEN /\ viol' = viol /\ pc' = "report" /\ mon' = [mon EXCEPT !.early = TRUE] /\ e1' = NoErr   \* (the wrong variant forgets the failure)
                        /\ UNCHANGED <<cfg, ffq, ff, pend, valid, invalid, seed, cur, flag, e2, buf, best, orig, sErr, cache, shrinks, rep, tbFailed, tbFailNow>>
                   ELSE Do(V_DoCheckRet(r), E_DoCheckRet(r))
             /\ UNCHANGED mvars

Failing == IsFail(e1) \/ IsFail(e2)
NeedSave == Failing /\ ~mon.fromFF /\ ~cfg.nofailfile /\ mon.savedFile = ""

Capture == /\ pc = "report" /\ NeedSave /\ rep.kind = "none"
           /\ Do(V_Begin("capture", buf, seed), E_Begin("capture", buf, seed))
           /\ UNCHANGED mvars
SaveIt  == /\ pc = "save"
           /\ Do(V_Save("saved.fail", buf, TRUE), E_Save("saved.fail", buf, TRUE))
           /\ UNCHANGED mvars

Report == /\ pc = "report" /\ rep.kind = "none" /\ ~NeedSave
          /\ IF Failing
             THEN LET r == [kind |-> ExpectedKind, valid |-> IF mon.fromFF THEN 0 ELSE valid, seed |-> mon.failSeed,
                            hasseed |-> ~mon.fromFF, failfile |-> IF mon.fromFF THEN ff ELSE mon.savedFile, msg |-> e2.msg]
                  IN Do(V_Errorf(r), E_Errorf(r))
             ELSE IF valid = cfg.checks \/ (mon.early /\ valid > 0)
                  THEN Do(V_PassLogged(valid), E_PassLogged(valid))
                  ELSE LET r == [NoRep EXCEPT !.kind = "onlygen", !.valid = valid] IN Do(V_Errorf(r), E_Errorf(r))
          /\ UNCHANGED mvars

Final == /\ pc = "report" /\ rep.kind \in {"failed", "panic", "flaky"}
         /\ Do(V_Begin("final", buf, seed), E_Begin("final", buf, seed))
         /\ UNCHANGED mvars

FailNow == /\ \/ pc = "failnow"
              \/ pc = "report" /\ rep.kind = "onlygen"
           /\ Do(V_FailNow, E_FailNow) /\ UNCHANGED mvars

End == /\ \/ pc = "done"
          \/ pc = "report" /\ rep.kind = "ok"
       /\ pc' = "end" /\ viol' = viol \cup V_RunEnd(tbFailed, tbFailNow)
       /\ UNCHANGED <<cfg, ffq, ff, pend, valid, invalid, seed, cur, flag, e1, e2, buf, best, orig, sErr, cache, shrinks, rep, tbFailed, tbFailNow, mon, mvars>>

Next == List \/ LogIgnored \/ Load \/ BeginFF \/ BeginGen \/ EarlyExit \/ BeginRepro \/ Run \/ Return \/ SBegin \/ Try \/ Second
        \/ Acc \/ SEnd \/ DRet \/ Capture \/ SaveIt \/ Report \/ Final \/ FailNow \/ End

Spec == Init /\ [][Next]_vars /\ WF_vars(Next)

---------------------------------------------------------------------------
NoViolation == viol = {}

\* end-to-end statements, phrased directly (they follow from NoViolation, kept as a cross-check)
AtEnd == pc = "end"
C01_Real      == AtEnd /\ rep.kind \in {"failed", "panic"} => mon.finalObs.sig # "none" /\ Expect(mon.finalObs).site = Expect(mon.firstObs).site
C01_NoPhantom == AtEnd /\ rep.kind \in {"failed", "panic", "flaky"} => mon.realFail
C01_NotFlaky  == rep.kind # "flaky"
C02_NoLost    == AtEnd /\ mon.anySig => tbFailed
C09_Work      == AtEnd /\ rep.kind = "ok" => (mon.passes = cfg.checks \/ (cfg.deadline /\ mon.early /\ mon.passes > 0)) /\ mon.gens = valid + invalid
C09_FailNow   == AtEnd /\ tbFailed => tbFailNow
C05_Smaller   == AtEnd /\ Failing /\ ~mon.fromFF /\ SameErr(e1, e2) => buf.rank <= genRank
\* every Check terminates
Terminates == <>(pc = "end")

\* the view hides nothing (all variables matter); the state constraint bounds nothing beyond the constants
=============================================================================
