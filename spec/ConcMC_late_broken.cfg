CONSTANTS Workers = {1,2} Ops = {"cleanup","failed"} Variant = "pop_stale" Late = TRUE MainCtx = TRUE Recheck = TRUE
SPECIFICATION Spec
INVARIANTS NoRace CleanupOnce
PROPERTY Termination
CHECK_DEADLOCK FALSE
