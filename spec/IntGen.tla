------------------------------- MODULE IntGen -------------------------------
(* Decision structure of the integer decoders (utils.go genUintNBiased,
   genUintRange, genIntRange): a bias draw n chooses how many bits the value
   gets -- n bits if n is below the span's bit length, the span's own bit
   length, or "overflow to max" for large n -- then words are drawn until one
   is within the span.

   (a) WidthTable: for every span bit length 1..64 some n selects the full
       width, so the top bit band is reachable.  Design = "pinned" (before fix
       fc4dc06) has holes exactly at {56, 60, 61, 62, 63, 64}.
   (b) For all small spans (max < 2^MaxW), every (n, word): the decoded value
       is within the span; every value of the span is decoded from some
       (n, word); within one width the decoding is monotone in the word
       (smaller words give values closer to zero: what exact minimization
       needs); overflow yields max.
   (c) Signed ranges: the sign coin and the split into a non-negative and a
       negative span keep the value inside [min, max] and reach all of it. *)
EXTENDS Integers, FiniteSets, TLC

CONSTANTS Design, MaxW, MaxN

Max2(a, b) == IF a > b THEN a ELSE b
RECURSIVE BitLen(_)
BitLen(x) == IF x = 0 THEN 0 ELSE 1 + BitLen(x \div 2)
RECURSIVE Pow2(_)
Pow2(k) == IF k = 0 THEN 1 ELSE 2 * Pow2(k - 1)

IntM(b) == Max2(8, (b + 48) \div 7)          \* int(math.Max(8, (bitlen+48)/7))
Thr(b) == 64 - (16 - IntM(b)) * 4
\* the width chosen for span bit length b and bias draw n (65 = overflow to max)
Width(b, n) == IF n < b THEN n
               ELSE IF (Design = "pinned" \/ n > b) /\ n >= Thr(b) THEN 65
               ELSE b

\* (a)
Holes == { b \in 1..64 : ~\E n \in 1..200 : Width(b, n) = b }
WidthTableOK == Holes = {}

\* decode one attempt: word w (already masked to the width) for span [0, mx]; "reject" if out of span
Decode(mx, n, w) == LET bl == Width(BitLen(mx), n) IN
                    IF bl > 64 THEN mx ELSE IF w <= mx THEN w ELSE -1     \* -1: rejected, another word is drawn

VARIABLES mx, n
vars == <<mx, n>>
Init == mx \in 0..(Pow2(MaxW) - 1) /\ n \in 1..MaxN
Next == UNCHANGED vars
Spec == Init /\ [][Next]_vars

WordsOf(m, k) == 0..(Pow2(IF Width(BitLen(m), k) > 64 THEN 0 ELSE Width(BitLen(m), k)) - 1)

\* (b) every accepted decoding is inside the span
InSpan == \A w \in WordsOf(mx, n) : Decode(mx, n, w) \in (-1)..mx
\* every value of the span is reachable (from some bias draw and word)
Reach == \A v \in 0..mx : \E k \in 1..MaxN : \E w \in WordsOf(mx, k) : Decode(mx, k, w) = v
\* monotone within a width: a smaller accepted word gives a value not further from zero
Monotone == \A w1, w2 \in WordsOf(mx, n) : (w1 <= w2 /\ Decode(mx, n, w1) >= 0 /\ Decode(mx, n, w2) >= 0) => Decode(mx, n, w1) <= Decode(mx, n, w2)
\* a smaller bias draw never allows a larger value than a larger one forbids: widths grow with n until the span's own
WidthsGrow == \A k \in 1..(MaxN - 1) : Width(BitLen(mx), k) <= Width(BitLen(mx), k + 1)

\* (c) signed range [lo, hi] with lo < 0 < hi: coin picks the negative span [1, -lo] or the non-negative span [0, hi]
REJ == 1000000
SignedValue(lo, hi, neg, k, w) ==
  IF neg THEN LET d == Decode(-lo - 1, k, w) IN IF d < 0 THEN REJ ELSE -(1 + d)
  ELSE LET d == Decode(hi, k, w) IN IF d < 0 THEN REJ ELSE d
SignedOK == \A lo \in (-mx)..(-1) : \A hi \in 1..mx :
              /\ \A neg \in BOOLEAN : \A w \in WordsOf(IF neg THEN -lo - 1 ELSE hi, n) :
                   LET v == SignedValue(lo, hi, neg, n, w) IN v = REJ \/ (v >= lo /\ v <= hi)
SignedReach == mx <= 8 => \A lo \in (-mx)..(-1) : \A hi \in 1..mx : \A v \in lo..hi :
                 \E neg \in BOOLEAN : \E k \in 1..MaxN : \E w \in WordsOf(IF neg THEN -lo - 1 ELSE hi, k) : SignedValue(lo, hi, neg, k, w) = v
=============================================================================
