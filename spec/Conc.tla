-------------------------------- MODULE Conc --------------------------------
(* rapid.T's non-drawing methods at lock granularity (engine.go: Context,
   Cleanup, fail, Failed, failOnError/takeFailure, cleanup).  Workers call one
   method each, concurrently with each other and with the test goroutine, which
   obtains the context, joins them, consults the failure flag and runs
   cleanup().  Every field access is a begin/end pair kept in an in-flight set
   together with its mode, so that a data race is a state predicate (NoRace).
   Variant = "code" is the implementation; the others are plausible slips:
   "fail_nolock" (fail() without t.mu), "ctx_norecheck" (Context() creates
   without re-checking under the lock), "reg_rlock" (Cleanup() under RLock),
   "pop_stale" (cleanup() looks at the length under the read lock and pops
   that index under the write lock). *)
EXTENDS Integers, Sequences, FiniteSets, TLC
CONSTANTS Workers, Ops, Variant,
          Late,     \* TRUE: the test goroutine does not join the workers before cleanup(); its first-registered cleanup function does
                    \* (goroutines still registering cleanups while the engine already runs the test case's cleanups)
          MainCtx,  \* TRUE: the property function itself obtains the context before it starts its goroutines
          Recheck   \* TRUE: Context looks at the cleaning flag again under the lock of its slow path (the code since repair 77ef44e)
Main == 0
Procs == Workers \cup {Main}

(* --algorithm conc
variables
  writer = -1, readers = {},            \* t.mu
  ctx = 0, nextCtx = 1, cancelled = {}, \* t.ctx (0 = nil), contexts cancelled so far
  cleaning = FALSE,                     \* atomic
  failed = FALSE,
  cleanups = <<>>, ran = <<>>,
  acc = [v \in {"ctx","failed","cleanups"} |-> {}],   \* in-flight accesses <<proc, mode>>
  op = [w \in Workers |-> "none"],
  got = [p \in Procs |-> 0],            \* context returned to p
  signalled = FALSE,                    \* some goroutine called Errorf
  done = {}, verdictFailed = FALSE, registered = {};

define
  Conflict(v) == \E a, b \in acc[v] : a[1] # b[1] /\ ("w" \in {a[2], b[2]})
  NoRace == \A v \in DOMAIN acc : ~Conflict(v)
  Finished == \A p \in Procs : pc[p] = "Done"
  NoLostFailure == Finished => (signalled => verdictFailed)
  OneContext == \A p, q \in Procs : (got[p] # 0 /\ got[q] # 0) => got[p] = got[q]
  CleanupOnce == Finished => /\ { ran[i] : i \in 1..Len(ran) } = registered
                             /\ \A i, j \in 1..Len(ran) : ran[i] = ran[j] => i = j
  AllCancelled == Finished => \A p \in Procs : got[p] > 0 => got[p] \in cancelled
end define;

macro RLock() begin await writer = -1; readers := readers \cup {self}; end macro;
macro RUnlock() begin readers := readers \ {self}; end macro;
macro Lock() begin await writer = -1 /\ readers = {}; writer := self; end macro;
macro Unlock() begin writer := -1; end macro;
macro Begin(v, m) begin acc[v] := acc[v] \cup {<<self, m>>}; end macro;
macro End(v, m) begin acc[v] := acc[v] \ {<<self, m>>}; end macro;

procedure Errorf() begin
  f1: if Variant # "fail_nolock" then Lock(); end if;
  f2: Begin("failed", "w");
  f3: failed := TRUE; signalled := TRUE; End("failed", "w");
  f4: if Variant # "fail_nolock" then Unlock(); end if;
  return;
end procedure;

procedure Context() variable c = 0; begin
  c1: RLock();
  c2: Begin("ctx", "r");
  c3: c := ctx; End("ctx", "r");
  c4: RUnlock();
  c5: if c # 0 then got[self] := c; return; end if;
  c6: if cleaning then got[self] := -1; return; end if;
  c7: Lock();
  c8: Begin("ctx", "r");
  c9: c := ctx; End("ctx", "r");
  c9b: if c = 0 /\ Recheck /\ cleaning then got[self] := -1; Unlock(); return; end if;
  c10: if c = 0 \/ Variant = "ctx_norecheck" then
         Begin("ctx", "w");
  c11:   ctx := nextCtx; c := nextCtx; nextCtx := nextCtx + 1; End("ctx", "w");
       end if;
  c12: got[self] := c; Unlock();
  return;
end procedure;

procedure Cleanup() begin
  k1: if Variant = "reg_rlock" then RLock(); else Lock(); end if;
  k2: Begin("cleanups", "w");
  k3: cleanups := Append(cleanups, self); registered := registered \cup {self}; End("cleanups", "w");
  k4: if Variant = "reg_rlock" then RUnlock(); else Unlock(); end if;
  return;
end procedure;

procedure FailedQ() begin
  q1: RLock();
  q2: Begin("failed", "r");
  q3: End("failed", "r");
  q4: RUnlock();
  return;
end procedure;

fair process w \in Workers begin
  pick: with o \in Ops do op[self] := o; end with;
  run:  if op[self] = "errorf" then call Errorf();
        elsif op[self] = "context" then call Context();
        elsif op[self] = "cleanup" then call Cleanup();
        else call FailedQ(); end if;
  fin:  done := done \cup {self};
end process;

fair process main \in {Main} variable n = 0; begin
  m0: if MainCtx then call Context(); end if;
  m1: if Late then
        \* t.Cleanup(func() { join }) registered by the property before it starts its goroutines' work
        cleanups := <<Main>>; registered := {Main};
      end if;
  join: await Late \/ done = Workers;
  \* failOnError
  e1: RLock();
  e2: Begin("failed", "r");
  e3: verdictFailed := failed; End("failed", "r");
  e4: RUnlock();
  \* cleanup(): cancel context, then pop-and-run
  u0: cleaning := TRUE;
  u1: Lock();
  u2: Begin("ctx", "w");
  u3: if ctx # 0 then cancelled := cancelled \cup {ctx}; ctx := 0; end if; End("ctx", "w");
  u4: Unlock();
  loop: while TRUE do
    p0: if Variant = "pop_stale" then
          RLock();
          s1: Begin("cleanups", "r");
          s2: n := Len(cleanups); End("cleanups", "r");
          s3: RUnlock();
        end if;
    p1: Lock();
    p2: Begin("cleanups", "w");
    p3: if Variant # "pop_stale" then n := Len(cleanups); end if;
        if n > 0 then
          ran := Append(ran, cleanups[n]);
          cleanups := SubSeq(cleanups, 1, n - 1);
          End("cleanups", "w");
        else
          End("cleanups", "w");
          goto u9;
        end if;
    p4: Unlock();
    \* the cleanup function runs outside the lock; the property's first-registered one joins the goroutines
    p5: if ran[Len(ran)] = Main then
          await done = Workers;
        end if;
  end while;
  u9: Unlock(); cleaning := FALSE;
end process;
end algorithm; *)
\* BEGIN TRANSLATION
VARIABLES pc, writer, readers, ctx, nextCtx, cancelled, cleaning, failed, 
          cleanups, ran, acc, op, got, signalled, done, verdictFailed, 
          registered, stack

(* define statement *)
Conflict(v) == \E a, b \in acc[v] : a[1] # b[1] /\ ("w" \in {a[2], b[2]})
NoRace == \A v \in DOMAIN acc : ~Conflict(v)
Finished == \A p \in Procs : pc[p] = "Done"
NoLostFailure == Finished => (signalled => verdictFailed)
OneContext == \A p, q \in Procs : (got[p] # 0 /\ got[q] # 0) => got[p] = got[q]
CleanupOnce == Finished => /\ { ran[i] : i \in 1..Len(ran) } = registered
                           /\ \A i, j \in 1..Len(ran) : ran[i] = ran[j] => i = j
AllCancelled == Finished => \A p \in Procs : got[p] > 0 => got[p] \in cancelled

VARIABLES c, n

vars == << pc, writer, readers, ctx, nextCtx, cancelled, cleaning, failed, 
           cleanups, ran, acc, op, got, signalled, done, verdictFailed, 
           registered, stack, c, n >>

ProcSet == (Workers) \cup ({Main})

Init == (* Global variables *)
        /\ writer = -1
        /\ readers = {}
        /\ ctx = 0
        /\ nextCtx = 1
        /\ cancelled = {}
        /\ cleaning = FALSE
        /\ failed = FALSE
        /\ cleanups = <<>>
        /\ ran = <<>>
        /\ acc = [v \in {"ctx","failed","cleanups"} |-> {}]
        /\ op = [w \in Workers |-> "none"]
        /\ got = [p \in Procs |-> 0]
        /\ signalled = FALSE
        /\ done = {}
        /\ verdictFailed = FALSE
        /\ registered = {}
        (* Procedure Context *)
        /\ c = [ self \in ProcSet |-> 0]
        (* Process main *)
        /\ n = [self \in {Main} |-> 0]
        /\ stack = [self \in ProcSet |-> << >>]
        /\ pc = [self \in ProcSet |-> CASE self \in Workers -> "pick"
                                        [] self \in {Main} -> "m0"]

f1(self) == /\ pc[self] = "f1"
            /\ IF Variant # "fail_nolock"
                  THEN /\ writer = -1 /\ readers = {}
                       /\ writer' = self
                  ELSE /\ TRUE
                       /\ UNCHANGED writer
            /\ pc' = [pc EXCEPT ![self] = "f2"]
            /\ UNCHANGED << readers, ctx, nextCtx, cancelled, cleaning, failed, 
                            cleanups, ran, acc, op, got, signalled, done, 
                            verdictFailed, registered, stack, c, n >>

f2(self) == /\ pc[self] = "f2"
            /\ acc' = [acc EXCEPT !["failed"] = acc["failed"] \cup {<<self, "w">>}]
            /\ pc' = [pc EXCEPT ![self] = "f3"]
            /\ UNCHANGED << writer, readers, ctx, nextCtx, cancelled, cleaning, 
                            failed, cleanups, ran, op, got, signalled, done, 
                            verdictFailed, registered, stack, c, n >>

f3(self) == /\ pc[self] = "f3"
            /\ failed' = TRUE
            /\ signalled' = TRUE
            /\ acc' = [acc EXCEPT !["failed"] = acc["failed"] \ {<<self, "w">>}]
            /\ pc' = [pc EXCEPT ![self] = "f4"]
            /\ UNCHANGED << writer, readers, ctx, nextCtx, cancelled, cleaning, 
                            cleanups, ran, op, got, done, verdictFailed, 
                            registered, stack, c, n >>

f4(self) == /\ pc[self] = "f4"
            /\ IF Variant # "fail_nolock"
                  THEN /\ writer' = -1
                  ELSE /\ TRUE
                       /\ UNCHANGED writer
            /\ pc' = [pc EXCEPT ![self] = Head(stack[self]).pc]
            /\ stack' = [stack EXCEPT ![self] = Tail(stack[self])]
            /\ UNCHANGED << readers, ctx, nextCtx, cancelled, cleaning, failed, 
                            cleanups, ran, acc, op, got, signalled, done, 
                            verdictFailed, registered, c, n >>

Errorf(self) == f1(self) \/ f2(self) \/ f3(self) \/ f4(self)

c1(self) == /\ pc[self] = "c1"
            /\ writer = -1
            /\ readers' = (readers \cup {self})
            /\ pc' = [pc EXCEPT ![self] = "c2"]
            /\ UNCHANGED << writer, ctx, nextCtx, cancelled, cleaning, failed, 
                            cleanups, ran, acc, op, got, signalled, done, 
                            verdictFailed, registered, stack, c, n >>

c2(self) == /\ pc[self] = "c2"
            /\ acc' = [acc EXCEPT !["ctx"] = acc["ctx"] \cup {<<self, "r">>}]
            /\ pc' = [pc EXCEPT ![self] = "c3"]
            /\ UNCHANGED << writer, readers, ctx, nextCtx, cancelled, cleaning, 
                            failed, cleanups, ran, op, got, signalled, done, 
                            verdictFailed, registered, stack, c, n >>

c3(self) == /\ pc[self] = "c3"
            /\ c' = [c EXCEPT ![self] = ctx]
            /\ acc' = [acc EXCEPT !["ctx"] = acc["ctx"] \ {<<self, "r">>}]
            /\ pc' = [pc EXCEPT ![self] = "c4"]
            /\ UNCHANGED << writer, readers, ctx, nextCtx, cancelled, cleaning, 
                            failed, cleanups, ran, op, got, signalled, done, 
                            verdictFailed, registered, stack, n >>

c4(self) == /\ pc[self] = "c4"
            /\ readers' = readers \ {self}
            /\ pc' = [pc EXCEPT ![self] = "c5"]
            /\ UNCHANGED << writer, ctx, nextCtx, cancelled, cleaning, failed, 
                            cleanups, ran, acc, op, got, signalled, done, 
                            verdictFailed, registered, stack, c, n >>

c5(self) == /\ pc[self] = "c5"
            /\ IF c[self] # 0
                  THEN /\ got' = [got EXCEPT ![self] = c[self]]
                       /\ pc' = [pc EXCEPT ![self] = Head(stack[self]).pc]
                       /\ c' = [c EXCEPT ![self] = Head(stack[self]).c]
                       /\ stack' = [stack EXCEPT ![self] = Tail(stack[self])]
                  ELSE /\ pc' = [pc EXCEPT ![self] = "c6"]
                       /\ UNCHANGED << got, stack, c >>
            /\ UNCHANGED << writer, readers, ctx, nextCtx, cancelled, cleaning, 
                            failed, cleanups, ran, acc, op, signalled, done, 
                            verdictFailed, registered, n >>

c6(self) == /\ pc[self] = "c6"
            /\ IF cleaning
                  THEN /\ got' = [got EXCEPT ![self] = -1]
                       /\ pc' = [pc EXCEPT ![self] = Head(stack[self]).pc]
                       /\ c' = [c EXCEPT ![self] = Head(stack[self]).c]
                       /\ stack' = [stack EXCEPT ![self] = Tail(stack[self])]
                  ELSE /\ pc' = [pc EXCEPT ![self] = "c7"]
                       /\ UNCHANGED << got, stack, c >>
            /\ UNCHANGED << writer, readers, ctx, nextCtx, cancelled, cleaning, 
                            failed, cleanups, ran, acc, op, signalled, done, 
                            verdictFailed, registered, n >>

c7(self) == /\ pc[self] = "c7"
            /\ writer = -1 /\ readers = {}
            /\ writer' = self
            /\ pc' = [pc EXCEPT ![self] = "c8"]
            /\ UNCHANGED << readers, ctx, nextCtx, cancelled, cleaning, failed, 
                            cleanups, ran, acc, op, got, signalled, done, 
                            verdictFailed, registered, stack, c, n >>

c8(self) == /\ pc[self] = "c8"
            /\ acc' = [acc EXCEPT !["ctx"] = acc["ctx"] \cup {<<self, "r">>}]
            /\ pc' = [pc EXCEPT ![self] = "c9"]
            /\ UNCHANGED << writer, readers, ctx, nextCtx, cancelled, cleaning, 
                            failed, cleanups, ran, op, got, signalled, done, 
                            verdictFailed, registered, stack, c, n >>

c9(self) == /\ pc[self] = "c9"
            /\ c' = [c EXCEPT ![self] = ctx]
            /\ acc' = [acc EXCEPT !["ctx"] = acc["ctx"] \ {<<self, "r">>}]
            /\ pc' = [pc EXCEPT ![self] = "c9b"]
            /\ UNCHANGED << writer, readers, ctx, nextCtx, cancelled, cleaning, 
                            failed, cleanups, ran, op, got, signalled, done, 
                            verdictFailed, registered, stack, n >>

c9b(self) == /\ pc[self] = "c9b"
             /\ IF c[self] = 0 /\ Recheck /\ cleaning
                   THEN /\ got' = [got EXCEPT ![self] = -1]
                        /\ writer' = -1
                        /\ pc' = [pc EXCEPT ![self] = Head(stack[self]).pc]
                        /\ c' = [c EXCEPT ![self] = Head(stack[self]).c]
                        /\ stack' = [stack EXCEPT ![self] = Tail(stack[self])]
                   ELSE /\ pc' = [pc EXCEPT ![self] = "c10"]
                        /\ UNCHANGED << writer, got, stack, c >>
             /\ UNCHANGED << readers, ctx, nextCtx, cancelled, cleaning, 
                             failed, cleanups, ran, acc, op, signalled, done, 
                             verdictFailed, registered, n >>

c10(self) == /\ pc[self] = "c10"
             /\ IF c[self] = 0 \/ Variant = "ctx_norecheck"
                   THEN /\ acc' = [acc EXCEPT !["ctx"] = acc["ctx"] \cup {<<self, "w">>}]
                        /\ pc' = [pc EXCEPT ![self] = "c11"]
                   ELSE /\ pc' = [pc EXCEPT ![self] = "c12"]
                        /\ acc' = acc
             /\ UNCHANGED << writer, readers, ctx, nextCtx, cancelled, 
                             cleaning, failed, cleanups, ran, op, got, 
                             signalled, done, verdictFailed, registered, stack, 
                             c, n >>

c11(self) == /\ pc[self] = "c11"
             /\ ctx' = nextCtx
             /\ c' = [c EXCEPT ![self] = nextCtx]
             /\ nextCtx' = nextCtx + 1
             /\ acc' = [acc EXCEPT !["ctx"] = acc["ctx"] \ {<<self, "w">>}]
             /\ pc' = [pc EXCEPT ![self] = "c12"]
             /\ UNCHANGED << writer, readers, cancelled, cleaning, failed, 
                             cleanups, ran, op, got, signalled, done, 
                             verdictFailed, registered, stack, n >>

c12(self) == /\ pc[self] = "c12"
             /\ got' = [got EXCEPT ![self] = c[self]]
             /\ writer' = -1
             /\ pc' = [pc EXCEPT ![self] = Head(stack[self]).pc]
             /\ c' = [c EXCEPT ![self] = Head(stack[self]).c]
             /\ stack' = [stack EXCEPT ![self] = Tail(stack[self])]
             /\ UNCHANGED << readers, ctx, nextCtx, cancelled, cleaning, 
                             failed, cleanups, ran, acc, op, signalled, done, 
                             verdictFailed, registered, n >>

Context(self) == c1(self) \/ c2(self) \/ c3(self) \/ c4(self) \/ c5(self)
                    \/ c6(self) \/ c7(self) \/ c8(self) \/ c9(self)
                    \/ c9b(self) \/ c10(self) \/ c11(self) \/ c12(self)

k1(self) == /\ pc[self] = "k1"
            /\ IF Variant = "reg_rlock"
                  THEN /\ writer = -1
                       /\ readers' = (readers \cup {self})
                       /\ UNCHANGED writer
                  ELSE /\ writer = -1 /\ readers = {}
                       /\ writer' = self
                       /\ UNCHANGED readers
            /\ pc' = [pc EXCEPT ![self] = "k2"]
            /\ UNCHANGED << ctx, nextCtx, cancelled, cleaning, failed, 
                            cleanups, ran, acc, op, got, signalled, done, 
                            verdictFailed, registered, stack, c, n >>

k2(self) == /\ pc[self] = "k2"
            /\ acc' = [acc EXCEPT !["cleanups"] = acc["cleanups"] \cup {<<self, "w">>}]
            /\ pc' = [pc EXCEPT ![self] = "k3"]
            /\ UNCHANGED << writer, readers, ctx, nextCtx, cancelled, cleaning, 
                            failed, cleanups, ran, op, got, signalled, done, 
                            verdictFailed, registered, stack, c, n >>

k3(self) == /\ pc[self] = "k3"
            /\ cleanups' = Append(cleanups, self)
            /\ registered' = (registered \cup {self})
            /\ acc' = [acc EXCEPT !["cleanups"] = acc["cleanups"] \ {<<self, "w">>}]
            /\ pc' = [pc EXCEPT ![self] = "k4"]
            /\ UNCHANGED << writer, readers, ctx, nextCtx, cancelled, cleaning, 
                            failed, ran, op, got, signalled, done, 
                            verdictFailed, stack, c, n >>

k4(self) == /\ pc[self] = "k4"
            /\ IF Variant = "reg_rlock"
                  THEN /\ readers' = readers \ {self}
                       /\ UNCHANGED writer
                  ELSE /\ writer' = -1
                       /\ UNCHANGED readers
            /\ pc' = [pc EXCEPT ![self] = Head(stack[self]).pc]
            /\ stack' = [stack EXCEPT ![self] = Tail(stack[self])]
            /\ UNCHANGED << ctx, nextCtx, cancelled, cleaning, failed, 
                            cleanups, ran, acc, op, got, signalled, done, 
                            verdictFailed, registered, c, n >>

Cleanup(self) == k1(self) \/ k2(self) \/ k3(self) \/ k4(self)

q1(self) == /\ pc[self] = "q1"
            /\ writer = -1
            /\ readers' = (readers \cup {self})
            /\ pc' = [pc EXCEPT ![self] = "q2"]
            /\ UNCHANGED << writer, ctx, nextCtx, cancelled, cleaning, failed, 
                            cleanups, ran, acc, op, got, signalled, done, 
                            verdictFailed, registered, stack, c, n >>

q2(self) == /\ pc[self] = "q2"
            /\ acc' = [acc EXCEPT !["failed"] = acc["failed"] \cup {<<self, "r">>}]
            /\ pc' = [pc EXCEPT ![self] = "q3"]
            /\ UNCHANGED << writer, readers, ctx, nextCtx, cancelled, cleaning, 
                            failed, cleanups, ran, op, got, signalled, done, 
                            verdictFailed, registered, stack, c, n >>

q3(self) == /\ pc[self] = "q3"
            /\ acc' = [acc EXCEPT !["failed"] = acc["failed"] \ {<<self, "r">>}]
            /\ pc' = [pc EXCEPT ![self] = "q4"]
            /\ UNCHANGED << writer, readers, ctx, nextCtx, cancelled, cleaning, 
                            failed, cleanups, ran, op, got, signalled, done, 
                            verdictFailed, registered, stack, c, n >>

q4(self) == /\ pc[self] = "q4"
            /\ readers' = readers \ {self}
            /\ pc' = [pc EXCEPT ![self] = Head(stack[self]).pc]
            /\ stack' = [stack EXCEPT ![self] = Tail(stack[self])]
            /\ UNCHANGED << writer, ctx, nextCtx, cancelled, cleaning, failed, 
                            cleanups, ran, acc, op, got, signalled, done, 
                            verdictFailed, registered, c, n >>

FailedQ(self) == q1(self) \/ q2(self) \/ q3(self) \/ q4(self)

pick(self) == /\ pc[self] = "pick"
              /\ \E o \in Ops:
                   op' = [op EXCEPT ![self] = o]
              /\ pc' = [pc EXCEPT ![self] = "run"]
              /\ UNCHANGED << writer, readers, ctx, nextCtx, cancelled, 
                              cleaning, failed, cleanups, ran, acc, got, 
                              signalled, done, verdictFailed, registered, 
                              stack, c, n >>

run(self) == /\ pc[self] = "run"
             /\ IF op[self] = "errorf"
                   THEN /\ stack' = [stack EXCEPT ![self] = << [ procedure |->  "Errorf",
                                                                 pc        |->  "fin" ] >>
                                                             \o stack[self]]
                        /\ pc' = [pc EXCEPT ![self] = "f1"]
                        /\ c' = c
                   ELSE /\ IF op[self] = "context"
                              THEN /\ stack' = [stack EXCEPT ![self] = << [ procedure |->  "Context",
                                                                            pc        |->  "fin",
                                                                            c         |->  c[self] ] >>
                                                                        \o stack[self]]
                                   /\ c' = [c EXCEPT ![self] = 0]
                                   /\ pc' = [pc EXCEPT ![self] = "c1"]
                              ELSE /\ IF op[self] = "cleanup"
                                         THEN /\ stack' = [stack EXCEPT ![self] = << [ procedure |->  "Cleanup",
                                                                                       pc        |->  "fin" ] >>
                                                                                   \o stack[self]]
                                              /\ pc' = [pc EXCEPT ![self] = "k1"]
                                         ELSE /\ stack' = [stack EXCEPT ![self] = << [ procedure |->  "FailedQ",
                                                                                       pc        |->  "fin" ] >>
                                                                                   \o stack[self]]
                                              /\ pc' = [pc EXCEPT ![self] = "q1"]
                                   /\ c' = c
             /\ UNCHANGED << writer, readers, ctx, nextCtx, cancelled, 
                             cleaning, failed, cleanups, ran, acc, op, got, 
                             signalled, done, verdictFailed, registered, n >>

fin(self) == /\ pc[self] = "fin"
             /\ done' = (done \cup {self})
             /\ pc' = [pc EXCEPT ![self] = "Done"]
             /\ UNCHANGED << writer, readers, ctx, nextCtx, cancelled, 
                             cleaning, failed, cleanups, ran, acc, op, got, 
                             signalled, verdictFailed, registered, stack, c, n >>

w(self) == pick(self) \/ run(self) \/ fin(self)

m0(self) == /\ pc[self] = "m0"
            /\ IF MainCtx
                  THEN /\ stack' = [stack EXCEPT ![self] = << [ procedure |->  "Context",
                                                                pc        |->  "m1",
                                                                c         |->  c[self] ] >>
                                                            \o stack[self]]
                       /\ c' = [c EXCEPT ![self] = 0]
                       /\ pc' = [pc EXCEPT ![self] = "c1"]
                  ELSE /\ pc' = [pc EXCEPT ![self] = "m1"]
                       /\ UNCHANGED << stack, c >>
            /\ UNCHANGED << writer, readers, ctx, nextCtx, cancelled, cleaning, 
                            failed, cleanups, ran, acc, op, got, signalled, 
                            done, verdictFailed, registered, n >>

m1(self) == /\ pc[self] = "m1"
            /\ IF Late
                  THEN /\ cleanups' = <<Main>>
                       /\ registered' = {Main}
                  ELSE /\ TRUE
                       /\ UNCHANGED << cleanups, registered >>
            /\ pc' = [pc EXCEPT ![self] = "join"]
            /\ UNCHANGED << writer, readers, ctx, nextCtx, cancelled, cleaning, 
                            failed, ran, acc, op, got, signalled, done, 
                            verdictFailed, stack, c, n >>

join(self) == /\ pc[self] = "join"
              /\ Late \/ done = Workers
              /\ pc' = [pc EXCEPT ![self] = "e1"]
              /\ UNCHANGED << writer, readers, ctx, nextCtx, cancelled, 
                              cleaning, failed, cleanups, ran, acc, op, got, 
                              signalled, done, verdictFailed, registered, 
                              stack, c, n >>

e1(self) == /\ pc[self] = "e1"
            /\ writer = -1
            /\ readers' = (readers \cup {self})
            /\ pc' = [pc EXCEPT ![self] = "e2"]
            /\ UNCHANGED << writer, ctx, nextCtx, cancelled, cleaning, failed, 
                            cleanups, ran, acc, op, got, signalled, done, 
                            verdictFailed, registered, stack, c, n >>

e2(self) == /\ pc[self] = "e2"
            /\ acc' = [acc EXCEPT !["failed"] = acc["failed"] \cup {<<self, "r">>}]
            /\ pc' = [pc EXCEPT ![self] = "e3"]
            /\ UNCHANGED << writer, readers, ctx, nextCtx, cancelled, cleaning, 
                            failed, cleanups, ran, op, got, signalled, done, 
                            verdictFailed, registered, stack, c, n >>

e3(self) == /\ pc[self] = "e3"
            /\ verdictFailed' = failed
            /\ acc' = [acc EXCEPT !["failed"] = acc["failed"] \ {<<self, "r">>}]
            /\ pc' = [pc EXCEPT ![self] = "e4"]
            /\ UNCHANGED << writer, readers, ctx, nextCtx, cancelled, cleaning, 
                            failed, cleanups, ran, op, got, signalled, done, 
                            registered, stack, c, n >>

e4(self) == /\ pc[self] = "e4"
            /\ readers' = readers \ {self}
            /\ pc' = [pc EXCEPT ![self] = "u0"]
            /\ UNCHANGED << writer, ctx, nextCtx, cancelled, cleaning, failed, 
                            cleanups, ran, acc, op, got, signalled, done, 
                            verdictFailed, registered, stack, c, n >>

u0(self) == /\ pc[self] = "u0"
            /\ cleaning' = TRUE
            /\ pc' = [pc EXCEPT ![self] = "u1"]
            /\ UNCHANGED << writer, readers, ctx, nextCtx, cancelled, failed, 
                            cleanups, ran, acc, op, got, signalled, done, 
                            verdictFailed, registered, stack, c, n >>

u1(self) == /\ pc[self] = "u1"
            /\ writer = -1 /\ readers = {}
            /\ writer' = self
            /\ pc' = [pc EXCEPT ![self] = "u2"]
            /\ UNCHANGED << readers, ctx, nextCtx, cancelled, cleaning, failed, 
                            cleanups, ran, acc, op, got, signalled, done, 
                            verdictFailed, registered, stack, c, n >>

u2(self) == /\ pc[self] = "u2"
            /\ acc' = [acc EXCEPT !["ctx"] = acc["ctx"] \cup {<<self, "w">>}]
            /\ pc' = [pc EXCEPT ![self] = "u3"]
            /\ UNCHANGED << writer, readers, ctx, nextCtx, cancelled, cleaning, 
                            failed, cleanups, ran, op, got, signalled, done, 
                            verdictFailed, registered, stack, c, n >>

u3(self) == /\ pc[self] = "u3"
            /\ IF ctx # 0
                  THEN /\ cancelled' = (cancelled \cup {ctx})
                       /\ ctx' = 0
                  ELSE /\ TRUE
                       /\ UNCHANGED << ctx, cancelled >>
            /\ acc' = [acc EXCEPT !["ctx"] = acc["ctx"] \ {<<self, "w">>}]
            /\ pc' = [pc EXCEPT ![self] = "u4"]
            /\ UNCHANGED << writer, readers, nextCtx, cleaning, failed, 
                            cleanups, ran, op, got, signalled, done, 
                            verdictFailed, registered, stack, c, n >>

u4(self) == /\ pc[self] = "u4"
            /\ writer' = -1
            /\ pc' = [pc EXCEPT ![self] = "loop"]
            /\ UNCHANGED << readers, ctx, nextCtx, cancelled, cleaning, failed, 
                            cleanups, ran, acc, op, got, signalled, done, 
                            verdictFailed, registered, stack, c, n >>

loop(self) == /\ pc[self] = "loop"
              /\ pc' = [pc EXCEPT ![self] = "p0"]
              /\ UNCHANGED << writer, readers, ctx, nextCtx, cancelled, 
                              cleaning, failed, cleanups, ran, acc, op, got, 
                              signalled, done, verdictFailed, registered, 
                              stack, c, n >>

p0(self) == /\ pc[self] = "p0"
            /\ IF Variant = "pop_stale"
                  THEN /\ writer = -1
                       /\ readers' = (readers \cup {self})
                       /\ pc' = [pc EXCEPT ![self] = "s1"]
                  ELSE /\ pc' = [pc EXCEPT ![self] = "p1"]
                       /\ UNCHANGED readers
            /\ UNCHANGED << writer, ctx, nextCtx, cancelled, cleaning, failed, 
                            cleanups, ran, acc, op, got, signalled, done, 
                            verdictFailed, registered, stack, c, n >>

s1(self) == /\ pc[self] = "s1"
            /\ acc' = [acc EXCEPT !["cleanups"] = acc["cleanups"] \cup {<<self, "r">>}]
            /\ pc' = [pc EXCEPT ![self] = "s2"]
            /\ UNCHANGED << writer, readers, ctx, nextCtx, cancelled, cleaning, 
                            failed, cleanups, ran, op, got, signalled, done, 
                            verdictFailed, registered, stack, c, n >>

s2(self) == /\ pc[self] = "s2"
            /\ n' = [n EXCEPT ![self] = Len(cleanups)]
            /\ acc' = [acc EXCEPT !["cleanups"] = acc["cleanups"] \ {<<self, "r">>}]
            /\ pc' = [pc EXCEPT ![self] = "s3"]
            /\ UNCHANGED << writer, readers, ctx, nextCtx, cancelled, cleaning, 
                            failed, cleanups, ran, op, got, signalled, done, 
                            verdictFailed, registered, stack, c >>

s3(self) == /\ pc[self] = "s3"
            /\ readers' = readers \ {self}
            /\ pc' = [pc EXCEPT ![self] = "p1"]
            /\ UNCHANGED << writer, ctx, nextCtx, cancelled, cleaning, failed, 
                            cleanups, ran, acc, op, got, signalled, done, 
                            verdictFailed, registered, stack, c, n >>

p1(self) == /\ pc[self] = "p1"
            /\ writer = -1 /\ readers = {}
            /\ writer' = self
            /\ pc' = [pc EXCEPT ![self] = "p2"]
            /\ UNCHANGED << readers, ctx, nextCtx, cancelled, cleaning, failed, 
                            cleanups, ran, acc, op, got, signalled, done, 
                            verdictFailed, registered, stack, c, n >>

p2(self) == /\ pc[self] = "p2"
            /\ acc' = [acc EXCEPT !["cleanups"] = acc["cleanups"] \cup {<<self, "w">>}]
            /\ pc' = [pc EXCEPT ![self] = "p3"]
            /\ UNCHANGED << writer, readers, ctx, nextCtx, cancelled, cleaning, 
                            failed, cleanups, ran, op, got, signalled, done, 
                            verdictFailed, registered, stack, c, n >>

p3(self) == /\ pc[self] = "p3"
            /\ IF Variant # "pop_stale"
                  THEN /\ n' = [n EXCEPT ![self] = Len(cleanups)]
                  ELSE /\ TRUE
                       /\ n' = n
            /\ IF n'[self] > 0
                  THEN /\ ran' = Append(ran, cleanups[n'[self]])
                       /\ cleanups' = SubSeq(cleanups, 1, n'[self] - 1)
                       /\ acc' = [acc EXCEPT !["cleanups"] = acc["cleanups"] \ {<<self, "w">>}]
                       /\ pc' = [pc EXCEPT ![self] = "p4"]
                  ELSE /\ acc' = [acc EXCEPT !["cleanups"] = acc["cleanups"] \ {<<self, "w">>}]
                       /\ pc' = [pc EXCEPT ![self] = "u9"]
                       /\ UNCHANGED << cleanups, ran >>
            /\ UNCHANGED << writer, readers, ctx, nextCtx, cancelled, cleaning, 
                            failed, op, got, signalled, done, verdictFailed, 
                            registered, stack, c >>

p4(self) == /\ pc[self] = "p4"
            /\ writer' = -1
            /\ pc' = [pc EXCEPT ![self] = "p5"]
            /\ UNCHANGED << readers, ctx, nextCtx, cancelled, cleaning, failed, 
                            cleanups, ran, acc, op, got, signalled, done, 
                            verdictFailed, registered, stack, c, n >>

p5(self) == /\ pc[self] = "p5"
            /\ IF ran[Len(ran)] = Main
                  THEN /\ done = Workers
                  ELSE /\ TRUE
            /\ pc' = [pc EXCEPT ![self] = "loop"]
            /\ UNCHANGED << writer, readers, ctx, nextCtx, cancelled, cleaning, 
                            failed, cleanups, ran, acc, op, got, signalled, 
                            done, verdictFailed, registered, stack, c, n >>

u9(self) == /\ pc[self] = "u9"
            /\ writer' = -1
            /\ cleaning' = FALSE
            /\ pc' = [pc EXCEPT ![self] = "Done"]
            /\ UNCHANGED << readers, ctx, nextCtx, cancelled, failed, cleanups, 
                            ran, acc, op, got, signalled, done, verdictFailed, 
                            registered, stack, c, n >>

main(self) == m0(self) \/ m1(self) \/ join(self) \/ e1(self) \/ e2(self)
                 \/ e3(self) \/ e4(self) \/ u0(self) \/ u1(self)
                 \/ u2(self) \/ u3(self) \/ u4(self) \/ loop(self)
                 \/ p0(self) \/ s1(self) \/ s2(self) \/ s3(self)
                 \/ p1(self) \/ p2(self) \/ p3(self) \/ p4(self)
                 \/ p5(self) \/ u9(self)

(* Allow infinite stuttering to prevent deadlock on termination. *)
Terminating == /\ \A self \in ProcSet: pc[self] = "Done"
               /\ UNCHANGED vars

Next == (\E self \in ProcSet:  \/ Errorf(self) \/ Context(self)
                               \/ Cleanup(self) \/ FailedQ(self))
           \/ (\E self \in Workers: w(self))
           \/ (\E self \in {Main}: main(self))
           \/ Terminating

Spec == /\ Init /\ [][Next]_vars
        /\ \A self \in Workers : /\ WF_vars(w(self))
                                 /\ WF_vars(Errorf(self))
                                 /\ WF_vars(Context(self))
                                 /\ WF_vars(Cleanup(self))
                                 /\ WF_vars(FailedQ(self))
        /\ \A self \in {Main} : WF_vars(main(self)) /\ WF_vars(Context(self))

Termination == <>(\A self \in ProcSet: pc[self] = "Done")

\* END TRANSLATION 
 
 
=============================================================================
