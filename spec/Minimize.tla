------------------------------ MODULE Minimize ------------------------------
(* shrink.go minimize(), the block minimizer, transcribed pass by pass:
   try 0..4, right shifts, unset bits from the top, sort bits, binary search;
   a candidate is accepted only if it is below the current best, at least 5,
   and the condition still holds.  For a monotone condition "x >= k" (what a
   threshold property gives once the decoder is monotone in the word, see
   IntGen!Monotone) the result is exactly k, for every start value u >= k.
   Design = "code"; "no_binsearch" and "shift_only" are wrong variants. *)
EXTENDS Integers, Bitwise, TLC

CONSTANTS Design, W,       \* start values u < 2^W
          Cond(_, _)      \* the condition the minimizer queries: CondThr for the exhaustive model, CondSet for recorded calls (MinimizeTrace)

Small == 5
RECURSIVE BitLen(_)
BitLen(x) == IF x = 0 THEN 0 ELSE 1 + BitLen(x \div 2)
RECURSIVE Pow2(_)
Pow2(i) == IF i = 0 THEN 1 ELSE 2 * Pow2(i - 1)

CondThr(x, k) == x >= k      \* a threshold property
CondSet(x, S) == x \in S      \* an arbitrary predicate, given by the set of values it holds for
Acc(best, x, k) == x < best /\ x >= Small /\ Cond(x, k)

RECURSIVE RShift(_, _)
RShift(best, k) == IF Acc(best, best \div 2, k) THEN RShift(best \div 2, k) ELSE best

RECURSIVE Unset(_, _, _)
Unset(best, i, k) == IF i < 0 THEN best
                     ELSE LET x == best ^^ Pow2(i) IN Unset(IF Acc(best, x, k) THEN x ELSE best, i - 1, k)

\* inner loop of sortBits for the high bit i: first j < i whose bit is clear and whose swap is accepted
RECURSIVE SortInner(_, _, _, _)
SortInner(best, i, j, k) ==
  IF j >= i THEN best
  ELSE LET h == Pow2(i)
           lo == Pow2(j)
       IN IF (best & lo) = 0 /\ Acc(best, best ^^ (lo | h), k) THEN best ^^ (lo | h)
          ELSE SortInner(best, i, j + 1, k)
RECURSIVE Sort(_, _, _)
Sort(best, i, k) == IF i < 0 THEN best
                    ELSE Sort(IF (best & Pow2(i)) # 0 THEN SortInner(best, i, 0, k) ELSE best, i - 1, k)

RECURSIVE Bin(_, _, _, _)
Bin(best, i, j, k) == IF i >= j THEN best
                      ELSE LET h == i + (j - i) \div 2 IN
                           IF Acc(best, h, k) THEN Bin(h, i, h, k) ELSE Bin(best, h + 1, j, k)
BinSearch(best, k) == IF ~Acc(best, best - 1, k) THEN best ELSE Bin(best - 1, 0, best - 1, k)

FirstSmall(u, k) == LET S == { i \in 0..(Small - 1) : i < u /\ Cond(i, k) } IN IF S = {} THEN -1 ELSE CHOOSE i \in S : \A j \in S : i <= j

Minimize(u, k) ==
  IF u = 0 THEN 0
  ELSE IF FirstSmall(u, k) >= 0 THEN FirstSmall(u, k)
  ELSE IF u <= Small THEN u
  ELSE LET b1 == RShift(u, k)
           b2 == IF Design = "shift_only" THEN b1 ELSE Unset(b1, BitLen(b1) - 1, k)
           b3 == IF Design = "shift_only" THEN b2 ELSE Sort(b2, BitLen(b2) - 1, k)
       IN IF Design \in {"no_binsearch", "shift_only"} THEN b3 ELSE BinSearch(b3, k)

VARIABLES u, k
Init == u \in 0..(Pow2(W) - 1) /\ k \in 0..u
Next == UNCHANGED <<u, k>>
Spec == Init /\ [][Next]_<<u, k>>

\* the minimizer reaches the exact boundary, and never leaves the failing region or grows
Exact == Minimize(u, k) = k
Sound == CondThr(Minimize(u, k), k) /\ Minimize(u, k) <= u
=============================================================================
