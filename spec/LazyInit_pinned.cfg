CONSTANTS Design = "pinned" Procs = {1,2,3}
SPECIFICATION Spec
INVARIANTS NoRace SameLabel
CHECK_DEADLOCK FALSE
