SPECIFICATION Spec
CONSTANTS
  Design = "repaired"
  InvalidMult = 2
  MaxRank = 2
  Checks = 1
  NoDeadline = TRUE
  Files = {"f1"}
  Less <- MCLess
  BehSel <- BehSelCore
INVARIANTS NoViolation
PROPERTY Terminates
CHECK_DEADLOCK FALSE
