---------------------------- MODULE W64 ----------------------------
(* 64-bit words for TLC, whose integers are 32-bit: a word is a tuple of four
   16-bit limbs, most significant first (the recorder logs every uint64 as
   [d |-> decimal string, l |-> limbs, i |-> the value if < 2^30 else -1]).
   Signed integers are logged in offset binary and floats by an order-preserving
   key, so the unsigned order below is the right one for all of them. *)
EXTENDS Integers, Sequences

Zero == <<0, 0, 0, 0>>

IsLimbs(a) == /\ Len(a) = 4 /\ \A i \in 1..4 : a[i] \in 0..65535

LT(a, b) == \/ a[1] < b[1]
            \/ a[1] = b[1] /\ ( \/ a[2] < b[2]
                                \/ a[2] = b[2] /\ ( \/ a[3] < b[3]
                                                    \/ a[3] = b[3] /\ a[4] < b[4]))
LE(a, b) == a = b \/ LT(a, b)

RECURSIVE Pow2(_)
Pow2(n) == IF n <= 0 THEN 1 ELSE 2 * Pow2(n - 1)

\* keep the low k bits of a limb (k >= 16: everything, k <= 0: nothing)
MaskLimb(x, k) == IF k >= 16 THEN x ELSE IF k <= 0 THEN 0 ELSE x % Pow2(k)
\* word & (2^n - 1); n >= 64 keeps everything (bitmask64(n) wraps to all ones for n = 64,
\* and the code never masks with n > 64 on a buffer stream except for the overflow width 65)
MaskN(a, n) == << MaskLimb(a[1], n - 48), MaskLimb(a[2], n - 32), MaskLimb(a[3], n - 16), MaskLimb(a[4], n) >>

\* little-endian bytes b[1..8] to limbs
FromBytes8(b) == << b[7] + 256 * b[8], b[5] + 256 * b[6], b[3] + 256 * b[4], b[1] + 256 * b[2] >>

\* bytes (any length) to words: 8 bytes per word, a short tail zero-padded
RECURSIVE WordsOfBytes(_)
WordsOfBytes(bs) ==
  IF Len(bs) = 0 THEN <<>>
  ELSE LET n    == IF Len(bs) < 8 THEN Len(bs) ELSE 8
           head == [i \in 1..8 |-> IF i <= n THEN bs[i] ELSE 0]
       IN <<FromBytes8(head)>> \o WordsOfBytes(SubSeq(bs, n + 1, Len(bs)))

\* addition modulo 2^64 of a word and a small natural number
AddSmall(a, k) ==
  LET s4 == a[4] + k
      c4 == s4 \div 65536
      s3 == a[3] + c4
      c3 == s3 \div 65536
      s2 == a[2] + c3
      c2 == s2 \div 65536
      s1 == a[1] + c2
  IN << s1 % 65536, s2 % 65536, s3 % 65536, s4 % 65536 >>

\* bit length of a word (0 for zero)
RECURSIVE BitLenLimb(_)
BitLenLimb(x) == IF x = 0 THEN 0 ELSE 1 + BitLenLimb(x \div 2)
BitLen(a) == IF a[1] # 0 THEN 48 + BitLenLimb(a[1])
             ELSE IF a[2] # 0 THEN 32 + BitLenLimb(a[2])
             ELSE IF a[3] # 0 THEN 16 + BitLenLimb(a[3])
             ELSE BitLenLimb(a[4])

(* length-then-lexicographic ("short-lex") order on sequences of words: the
   order compareData implements and minimization must descend in *)
RECURSIVE LexLT(_, _, _)
LexLT(x, y, i) == IF i > Len(x) THEN FALSE
                  ELSE IF x[i] = y[i] THEN LexLT(x, y, i + 1)
                  ELSE LT(x[i], y[i])
ShortLexLT(x, y) == \/ Len(x) < Len(y)
                    \/ Len(x) = Len(y) /\ LexLT(x, y, 1)
ShortLexLE(x, y) == x = y \/ ShortLexLT(x, y)

\* words of a logged buffer record [id, n, w]
Limbs(buf) == [i \in 1..Len(buf.w) |-> buf.w[i].l]
=====================================================================
