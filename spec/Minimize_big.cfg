CONSTANTS Design = "code" W = 10
CONSTANT Cond <- CondThr
SPECIFICATION Spec
INVARIANTS Exact Sound
CHECK_DEADLOCK FALSE
