CONSTANTS Design = "code" W = 10
SPECIFICATION Spec
INVARIANTS Exact Sound
CHECK_DEADLOCK FALSE
