----------------------------- MODULE StreamTrace -----------------------------
(* Bit-stream level trace specification (C04, C13): validates recorded runs at
   the level of drawBits / groups / prune / MakeFuzz decoding.

   * every word drawn from a buffer stream is the next word of the buffer,
     masked to the requested width (W64 limb arithmetic);
   * MakeFuzz reads its input as little-endian 64-bit words, a short tail
     zero-padded (decoded here, in the specification, from the logged bytes);
   * prune() computes what the transcription Prune!PruneCode computes, which is
     what pruning means (discarded groups removed);
   * the outcome of a fuzz call is determined by what the property did:
     failed iff it signalled a failure, skipped iff it was skipped or the data
     was invalid/exhausted, passed otherwise;
   * relations between runs/calls listed in the scenario (same input twice,
     input extended by bytes the property does not consume, replay of recorded
     / pruned words, fail-file replay of the same words) give the same draws
     and the same verdict. *)
EXTENDS Integers, Sequences, FiniteSets, TLC, Json, W64, Prune

CONSTANTS Property
Trace == ndJsonDeserialize("trace.ndjson")

VARIABLES l, scen, viol,
          words,      \* words of the buffer stream being read (limbs), <<>> if unknown / random stream
          wpos,       \* number of words drawn from it so far
          fz,         \* fuzz call in progress: [j, input, ...]
          obs,        \* what the current invocation did: [sig, ended, draws]
          res,        \* finished invocations of this scenario by label: label -> [draws, verdict, consumed, nwords]
          pr,         \* recording at prune.begin (to compare with prune.end)
          kind,       \* phase kind of the invocation in progress
          runno,      \* number of the run (of the scenario) in progress
          iter        \* index of the random test case in progress

vars == <<l, scen, viol, words, wpos, fz, obs, res, pr, kind, runno, iter>>

Ev == Trace[l]
Is(e) == l <= Len(Trace) /\ Trace[l].ev = e
Adv == l' = l + 1
If(c, name) == IF c THEN {name} ELSE {}
NoObs == [sig |-> "none", ended |-> "running", draws |-> <<>>, overrun |-> FALSE, marks |-> <<>>, step |-> 0, instep |-> FALSE, actmark |-> 0]
NoFz == [j |-> 0]

VerdictOf ==
  [ C04 |-> {"replay_differs", "pruned_replay_differs", "prune_not_meaning", "mask_mismatch", "word_mismatch"},
    C13 |-> {"decode_mismatch", "status_mismatch", "fuzz_nondeterministic", "extension_changes_outcome", "fuzz_not_faithful",
             "word_mismatch", "mask_mismatch", "fuzz_crashed", "overrun_not_at_end", "hangs", "rejection_invalidates"} ]
Verdicts == IF Property = "ALL" THEN UNION { VerdictOf[p] : p \in DOMAIN VerdictOf } ELSE VerdictOf[Property]

Init == /\ l = 1 /\ scen = [id |-> ""] /\ viol = {} /\ words = <<>> /\ wpos = 0 /\ fz = NoFz /\ obs = NoObs
        /\ res = [x \in {} |-> 0] /\ pr = [data |-> <<>>, groups |-> <<>>] /\ kind = "none" /\ runno = 0 /\ iter = 0

ScenBegin == /\ Is("scen.begin") /\ Adv /\ scen' = Ev /\ viol' = {} /\ words' = <<>> /\ wpos' = 0 /\ fz' = NoFz /\ obs' = NoObs
             /\ res' = [x \in {} |-> 0] /\ pr' = [data |-> <<>>, groups |-> <<>>] /\ kind' = "none" /\ runno' = 0 /\ iter' = 0
ScenEnd == /\ Is("scen.end") /\ Adv
           /\ IF viol \cap Verdicts = {} THEN TRUE ELSE PrintT(<<"VIOLATED", scen.id, viol \cap Verdicts, l>>)
           /\ UNCHANGED <<scen, viol, words, wpos, fz, obs, res, pr, kind, runno, iter>>

\* ---- which stream is being read -------------------------------------------
Phase ==
  /\ Is("h.phase") /\ Adv /\ kind' = Ev.kind
  /\ words' = CASE Ev.kind \in {"shrink1", "shrink2"} -> Limbs(Ev.cand)
                [] Ev.kind \in {"capture", "final"} -> Limbs(Ev.buf)
                [] Ev.kind = "fuzz" -> words
                [] OTHER -> <<>>
  /\ wpos' = 0 /\ obs' = NoObs /\ iter' = (IF Ev.kind = "gen" THEN Ev.iter ELSE iter)
  /\ UNCHANGED <<scen, viol, fz, res, pr, runno>>

FFLoad ==
  /\ Is("h.ff.load") /\ Adv
  /\ words' = (IF Ev.ok THEN Limbs(Ev.buf) ELSE <<>>) /\ wpos' = 0
  /\ UNCHANGED <<scen, viol, fz, obs, res, pr, kind, runno, iter>>

\* MakeFuzz decoded its input: compare with the decoding done here
FuzzBuf ==
  /\ Is("h.fuzz.buf") /\ Adv
  /\ LET mine == WordsOfBytes(fz.input) IN   \* the bytes the harness passed to the fuzz target
     /\ viol' = viol \cup If(Limbs(Ev.words) # mine, "decode_mismatch")
     /\ words' = mine /\ wpos' = 0
  /\ UNCHANGED <<scen, fz, obs, res, pr, kind, runno, iter>>

FuzzBegin ==
  /\ Is("fuzz.begin") /\ Adv /\ fz' = Ev /\ obs' = NoObs /\ words' = WordsOfBytes(Ev.input) /\ wpos' = 0
  /\ UNCHANGED <<scen, viol, res, pr, kind, runno, iter>>

\* one drawBits on a buffer stream
Bits ==
  /\ Is("h.bits") /\ Adv
  /\ IF Ev.src = "buf" /\ words # <<>>
     THEN /\ viol' = viol \cup If(wpos + 1 > Len(words) \/ (wpos + 1 <= Len(words) /\ Ev.raw.l # words[wpos + 1]), "word_mismatch")
                          \cup If(Ev.u.l # MaskN(Ev.raw.l, Ev.n), "mask_mismatch")
          /\ wpos' = wpos + 1
     ELSE /\ viol' = viol \cup If(Ev.src = "buf" /\ Ev.u.l # MaskN(Ev.raw.l, Ev.n), "mask_mismatch") /\ wpos' = wpos + 1
  /\ UNCHANGED <<scen, words, fz, obs, res, pr, kind, runno, iter>>

Overrun ==
  /\ Is("h.overrun") /\ Adv
  /\ viol' = viol \cup If(words # <<>> /\ wpos < Len(words), "overrun_not_at_end")
  \* (running out of data in a cleanup function, after the property function has returned, still makes the test case invalid)
  /\ obs' = [obs EXCEPT !.overrun = TRUE, !.ended = IF @ = "ret" THEN "skip" ELSE @]
  /\ UNCHANGED <<scen, words, wpos, fz, res, pr, kind, runno, iter>>

\* ---- prune -----------------------------------------------------------------
G(gs) == [k \in 1..Len(gs) |-> [begin |-> gs[k].begin, end |-> gs[k].end, discard |-> gs[k].discard]]
PruneBegin ==
  /\ Is("h.prune.begin") /\ Adv /\ pr' = [data |-> Limbs(Ev.data), groups |-> G(Ev.groups)]
  /\ UNCHANGED <<scen, viol, words, wpos, fz, obs, res, kind, runno, iter>>
PruneEnd ==
  /\ Is("h.prune.end") /\ Adv
  /\ viol' = viol \cup If(PruneMeaning(pr) # Limbs(Ev.data), "prune_not_meaning")
                  \* binding: the code's algorithm (remove group by group, re-basing offsets) is the transcription's;
                  \* evaluated on recordings of moderate size only (it is quadratic in the number of groups)
                  \cup (IF Len(pr.groups) <= 120
                        THEN LET mine == PruneCode(pr) IN If(mine.data # Limbs(Ev.data) \/ mine.groups # G(Ev.groups), "prune_transcription")
                        ELSE {})
  /\ UNCHANGED <<scen, words, wpos, fz, obs, res, pr, kind, runno, iter>>

\* ---- what the property did ---------------------------------------------------
Draw == /\ Is("draw") /\ Adv /\ obs' = [obs EXCEPT !.draws = Append(@, <<Ev.label, Ev.dval>>)]
        /\ UNCHANGED <<scen, viol, words, wpos, fz, res, pr, kind, runno, iter>>
Call == /\ Is("call") /\ Adv
        /\ obs' = IF Ev.m = "skip" THEN (IF obs.ended = "ret" THEN [obs EXCEPT !.ended = "skip"] ELSE obs)   \* a skip raised from a cleanup function
                  ELSE [obs EXCEPT !.sig = "fail"]
        /\ UNCHANGED <<scen, viol, words, wpos, fz, res, pr, kind, runno, iter>>
\* T.Repeat could not find an action that runs and fails the test case itself
ActionNone == /\ Is("h.action.none") /\ Adv /\ obs' = [obs EXCEPT !.sig = "fail"]
              /\ UNCHANGED <<scen, viol, words, wpos, fz, res, pr, kind, runno, iter>>
\* Draws made inside an attempt that is rejected afterwards (a Repeat action that skips after drawing, a Custom
\* function attempt that skips) belong to bits that pruning removes: they are not part of the test case's values.
AttemptBegin ==
  /\ l <= Len(Trace) /\ Trace[l].ev \in {"sm.action.begin", "cinv.begin"} /\ Adv
  /\ obs' = IF Ev.ev = "cinv.begin" THEN [obs EXCEPT !.marks = Append(@, Len(obs.draws))]
            ELSE \* a Repeat step starts with its first try; skipped-before-draw tries stay within the step
                 [obs EXCEPT !.step = IF obs.instep THEN @ ELSE Len(obs.draws) - 1, !.instep = TRUE, !.actmark = Len(obs.draws)]
  /\ UNCHANGED <<scen, viol, words, wpos, fz, res, pr, kind, runno, iter>>
AttemptEnd ==
  /\ l <= Len(Trace) /\ Trace[l].ev \in {"sm.action.end", "cinv.end"} /\ Adv
  /\ IF Ev.ev = "cinv.end"
     THEN LET m == IF obs.marks = <<>> THEN Len(obs.draws) ELSE obs.marks[Len(obs.marks)] IN
          obs' = [obs EXCEPT !.marks = IF @ = <<>> THEN @ ELSE SubSeq(@, 1, Len(@) - 1),
                             !.draws = IF ~Ev.ret /\ Ev.last = "skip" THEN SubSeq(@, 1, m) ELSE @]
     ELSE LET drew == Len(obs.draws) > obs.actmark
              \* the action skipped before it began to draw: tried again in place, within the same step
              skippedInPlace == ~Ev.ret /\ Ev.last = "skip" /\ ~drew
              \* the action skipped after drawing, or was abandoned inside a draw by a generator that gave up (no call of its own ended it):
              \* the whole step is rejected and its bits are pruned
              rejectedStep == ~Ev.ret /\ ((Ev.last = "skip" /\ drew) \/ Ev.last = "")
          IN obs' = [obs EXCEPT !.draws = IF rejectedStep /\ obs.step >= 0 THEN SubSeq(@, 1, obs.step) ELSE @,
                                !.instep = skippedInPlace]
  /\ UNCHANGED <<scen, viol, words, wpos, fz, res, pr, kind, runno, iter>>

InvBegin == /\ Is("inv.begin") /\ Adv /\ obs' = NoObs /\ UNCHANGED <<scen, viol, words, wpos, fz, res, pr, kind, runno, iter>>
\* A rejection (duplicate element, skipped Repeat action) after which the repeat has enough rejections and its minimum count is reached makes it
\* STOP (utils.go: reject sets forceStop; RepeatSM!Reject); the test case stays valid.  The harness reports whether such a rejection was the
\* last thing the repeat did before the invocation unwound -- not even one coin was flipped afterwards (the forced stop, which waits for a coin
\* that stops by itself, may give up after many; how many is not this specification's business).
InvEnd == /\ Is("inv.end") /\ Adv
          /\ obs' = [obs EXCEPT !.ended = IF Ev.how = "ret" THEN "ret" ELSE IF Ev.last = "skip" THEN "skip" ELSE "unwind"]
          /\ viol' = viol \cup If("rejpend" \in DOMAIN Ev /\ Ev.rejpend /\ Ev.rejcoins = 0 /\ Ev.how # "ret" /\ ~obs.overrun /\ obs.sig = "none",
                                  "rejection_invalidates")
          /\ UNCHANGED <<scen, words, wpos, fz, res, pr, kind, runno, iter>>

Verdict(o) == IF o.sig = "fail" THEN "failed" ELSE IF o.ended = "ret" THEN "passed" ELSE "skipped"
Summary == [draws |-> obs.draws, verdict |-> Verdict(obs), consumed |-> wpos, nwords |-> Len(words), overrun |-> obs.overrun,
            nbytes |-> IF fz.j # 0 THEN fz.n ELSE 8 * Len(words)]

\* relations of a labelled invocation to earlier ones: scen.rel is a sequence of [a, kind, b]
Rels(lbl) == { i \in 1..Len(scen.rel) : scen.rel[i].a = lbl }
V_Rel(lbl, s) ==
  UNION { LET r == scen.rel[i] IN
          IF r.b \notin DOMAIN res THEN {}
          ELSE LET o == res[r.b] IN
            CASE r.kind = "same" -> If(s.draws # o.draws \/ s.verdict # o.verdict, "fuzz_nondeterministic")
              [] r.kind = "extends" -> \* appended bytes the first call did not consume: it neither ran out of data nor read a zero-padded tail word
                                     If(~o.overrun /\ o.consumed <= o.nbytes \div 8 /\ (s.draws # o.draws \/ s.verdict # o.verdict), "extension_changes_outcome")
              [] r.kind = "replay" -> If(s.draws # o.draws \/ s.verdict # o.verdict, "replay_differs")
              [] r.kind = "pruned" -> If(s.draws # o.draws \/ s.verdict # o.verdict, "pruned_replay_differs")
              [] r.kind = "faithful" -> If(s.draws # o.draws \/ s.verdict # o.verdict, "fuzz_not_faithful")
              [] OTHER -> {}
        : i \in Rels(lbl) }

V_RelIter(lbl, it, s) ==
  UNION { LET r == scen.rel[i]
              key == r.b \o "#" \o ToString(it) IN
          IF r.kind # "replay" \/ key \notin DOMAIN res THEN {}
          ELSE If(s.draws # res[key].draws \/ s.verdict # res[key].verdict, "replay_differs")
        : i \in Rels(lbl) }

FuzzEnd ==
  /\ Is("fuzz.end") /\ Adv
  /\ LET s == Summary
         lbl == "fuzz" \o ToString(fz.j)
     IN /\ viol' = viol \cup If(Ev.status # s.verdict, "status_mismatch") \cup If((~Ev.completed /\ Ev.status = "passed") \/ Ev.status = "crashed", "fuzz_crashed")
                        \cup V_Rel(lbl, s)
        /\ res' = [x \in DOMAIN res \cup {lbl} |-> IF x = lbl THEN s ELSE res[x]]
  /\ fz' = NoFz /\ obs' = NoObs
  /\ UNCHANGED <<scen, words, wpos, pr, kind, runno, iter>>

\* invocations of a Check run are labelled by their phase kind: "repro", "final", "ff1", ...
OnceEnd ==
  /\ Is("h.once.end") /\ Adv
  /\ IF fz.j = 0 /\ kind \in {"gen", "repro", "final", "ff1", "capture"}
     THEN LET s == Summary
              lbl == kind \o "@" \o ToString(runno)
              \* random test cases are also labelled by their index, and compared with the case of the same index of the other run
              lbi == lbl \o "#" \o ToString(iter)
          IN
          /\ viol' = viol \cup (IF kind = "gen" THEN V_RelIter(lbl, iter, s) ELSE V_Rel(lbl, s))
          /\ res' = [x \in DOMAIN res \cup {lbl, lbi} |-> IF x \in {lbl, lbi} THEN s ELSE res[x]]
     ELSE /\ viol' = viol /\ res' = res
  /\ UNCHANGED <<scen, words, wpos, fz, obs, pr, kind, runno, iter>>

RunBegin == /\ Is("run.begin") /\ Adv /\ runno' = Ev.run /\ UNCHANGED <<scen, viol, words, wpos, fz, obs, res, pr, kind, iter>>

Handled == {"hang", "sm.action.begin", "sm.action.end", "cinv.begin", "cinv.end", "run.begin", "scen.begin", "scen.end", "h.phase", "h.ff.load", "h.fuzz.buf", "fuzz.begin", "h.bits", "h.overrun", "h.prune.begin", "h.prune.end",
            "draw", "call", "inv.begin", "inv.end", "fuzz.end", "h.once.end", "h.action.none"}
\* the watchdog saw an invocation still running after 90 s: the library hung
Hang == /\ Is("hang") /\ Adv /\ viol' = viol \cup {"hangs"} /\ UNCHANGED <<scen, words, wpos, fz, obs, res, pr, kind, runno, iter>>

Other == /\ l <= Len(Trace) /\ Trace[l].ev \notin Handled /\ Adv /\ UNCHANGED <<scen, viol, words, wpos, fz, obs, res, pr, kind, runno, iter>>

Next == Hang \/ AttemptBegin \/ AttemptEnd \/ RunBegin \/ ScenBegin \/ ScenEnd \/ Phase \/ FFLoad \/ FuzzBuf \/ FuzzBegin \/ Bits \/ Overrun \/ PruneBegin \/ PruneEnd \/ Draw \/ Call \/ ActionNone
        \/ InvBegin \/ InvEnd \/ FuzzEnd \/ OnceEnd \/ Other
Spec == Init /\ [][Next]_vars

HW == /\ TLCSet(1, IF l > TLCGet(1) THEN l ELSE TLCGet(1))
      /\ TLCSet(2, TLCGet(2) \cup (viol \ Verdicts))
ASSUME TLCSet(1, 0) /\ TLCSet(2, {})
Accepted == /\ PrintT(<<"BINDING_LOST", TLCGet(2)>>)
            /\ IF TLCGet(1) = Len(Trace) + 1 THEN PrintT(<<"TRACE_ACCEPTED", Len(Trace)>>)
               ELSE PrintT(<<"TRACE_REJECTED_AT", TLCGet(1), Trace[TLCGet(1)].ev, Trace[TLCGet(1)].seq>>) /\ FALSE
=============================================================================
