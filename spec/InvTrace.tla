------------------------------ MODULE InvTrace ------------------------------
(* Life cycle of one invocation of a property function or Custom generator
   function, and the discipline of T.Repeat, checked on recorded executions.

   Bracket automaton (one frame per invocation; Custom attempts nest):
     Begin . (Draw | CtxGet | RegisterCleanup | signal | nested Custom)* .
     Return|Unwind . [context cancelled] . CleanupPop* . End
   State-machine automaton inside an invocation:
     Inv ( Action(ok) Inv | Action(skipped) )*  ending with Stop | Falsified |
     NoValidActions (after 100 consecutive skips without a draw).

   As in EngineTrace, obligations a step violates accumulate in `viol`; the
   scenario is judged at scen.end.  Frames are kept in a stack `fr`. *)
EXTENDS Integers, Sequences, FiniteSets, TLC, Json

CONSTANTS Property

Trace == ndJsonDeserialize("trace.ndjson")

VARIABLES l, scen, fr, kind, sm, viol, seen

vars == <<l, scen, fr, kind, sm, viol, seen>>

Ev == Trace[l]
Is(e) == l <= Len(Trace) /\ Trace[l].ev = e
Adv == l' = l + 1
If(c, name) == IF c THEN {name} ELSE {}

\* a frame: the invocation's id, whether its function is still running, its cleanup stack
\* (ids, most recent last), the cleanups already run, the contexts it obtained
Frame(id, k) == [id |-> id, k |-> k, open |-> TRUE, stack |-> <<>>, ran |-> {}, running |-> 0, ctxs |-> {}, regs |-> 0]
NoSM == [active |-> FALSE, hasInv |-> FALSE, needInv |-> FALSE, lastSkipped |-> FALSE, failed |-> FALSE, inAct |-> FALSE,
         inInv |-> FALSE, skips |-> 0, completed |-> 0, actDraws |-> 0, nf |-> FALSE, invRuns |-> 0, steps |-> 0, ovr |-> FALSE, actions |-> {"*"}, key |-> "", pre |-> FALSE, maxSkips |-> 0]

Init == /\ l = 1 /\ scen = [id |-> ""] /\ fr = <<>> /\ kind = "none" /\ sm = NoSM /\ viol = {} /\ seen = {}

Top == fr[Len(fr)]
SetTop(f) == [fr EXCEPT ![Len(fr)] = f]
\* index of the frame of invocation id (0 if none)
FrameOf(id) == LET S == { i \in 1..Len(fr) : fr[i].id = id } IN IF S = {} THEN 0 ELSE CHOOSE i \in S : TRUE

Max2(a, b) == IF a >= b THEN a ELSE b
VerdictOf ==
  [ C10 |-> {"context_dead_during_call", "context_live_at_cleanup", "context_live_after_call", "cleanup_not_lifo", "cleanup_not_run",
             "cleanup_run_twice_or_unknown", "cleanup_before_return", "invocation_overlap", "cleanup_after_end", "context_shared_between_invocations"},
    C08 |-> {"invariant_not_first", "invariant_missing_after_action", "invariant_after_skipped_action", "continued_after_falsification",
             "actions_overlap", "no_valid_action_not_reported", "skipped_action_counted", "invariant_not_run_once", "hangs", "skipped_action_invalidates_run", "action_not_supplied", "action_not_the_drawn_one",
             "gave_up_with_runnable_actions"} ]
Verdicts == IF Property = "ALL" THEN UNION { VerdictOf[p] : p \in DOMAIN VerdictOf } ELSE VerdictOf[Property]

ScenBegin == /\ Is("scen.begin") /\ Adv /\ scen' = Ev /\ fr' = <<>> /\ kind' = "none" /\ sm' = NoSM /\ viol' = {} /\ seen' = {}
ScenEnd == /\ Is("scen.end") /\ Adv
           /\ IF viol \cap Verdicts = {} THEN TRUE ELSE PrintT(<<"VIOLATED", scen.id, viol \cap Verdicts, l>>)
           /\ UNCHANGED <<scen, fr, kind, sm, viol, seen>>

Phase == /\ Is("h.phase") /\ Adv /\ kind' = Ev.kind /\ seen' = seen \cup {Ev.kind} /\ UNCHANGED <<scen, fr, sm, viol>>

\* ---- brackets ---------------------------------------------------------------
\* checkOnce begins: nothing of an earlier invocation may be left over
OnceBegin ==
  /\ Is("h.once.begin") /\ Adv
  /\ viol' = viol \cup If(fr # <<>>, "invocation_overlap")
  /\ fr' = <<>> /\ sm' = [NoSM EXCEPT !.maxSkips = sm.maxSkips] /\ UNCHANGED <<scen, kind, seen>>

InvBegin ==
  /\ Is("inv.begin") /\ Adv
  /\ fr' = Append(fr, Frame(Ev.inv, "top"))
  /\ viol' = viol \cup If(fr # <<>>, "invocation_overlap")
  /\ UNCHANGED <<scen, kind, sm, seen>>

\* Custom's maybeValue begins (hook): a frame is opened; the library's own Custom functions (Make) have no harness events,
\* a scripted one identifies the frame with its cinv.begin
CustomBegin ==
  /\ Is("h.custom.begin") /\ Adv
  /\ fr' = Append(fr, Frame(-1, "lib"))
  /\ viol' = viol /\ UNCHANGED <<scen, kind, sm, seen>>

CInvBegin ==
  /\ Is("cinv.begin") /\ Adv
  /\ fr' = IF fr # <<>> /\ Top.k = "lib" THEN SetTop(Frame(Ev.inv, "custom")) ELSE Append(fr, Frame(Ev.inv, "custom"))
  /\ viol' = viol /\ UNCHANGED <<scen, kind, sm, seen>>

\* the function returned or unwound: from now on its cleanups may run
FnEnd(id) ==
  LET i == FrameOf(id) IN
  IF i = 0 THEN fr' = fr ELSE fr' = [fr EXCEPT ![i].open = FALSE]

\* A skipped action is rejected; once the repeat has enough rejections and its minimum (0 for Repeat) is reached, the rejection makes it STOP
\* (RepeatSM!Reject) -- it never turns the whole test case invalid.  The harness reports whether such a rejection was the last thing the repeat
\* did before the invocation unwound, without even one more coin flipped (the forced stop itself may give up after many coins; see StreamTrace!InvEnd).
InvEnd == /\ Is("inv.end") /\ Adv /\ FnEnd(Ev.inv)
          /\ viol' = viol \cup If("rejpend" \in DOMAIN Ev /\ Ev.rejpend /\ Ev.rejcoins = 0 /\ Ev.how # "ret" /\ ~sm.ovr,
                                  "skipped_action_invalidates_run")
          /\ sm' = IF sm.active THEN [sm EXCEPT !.active = FALSE] ELSE sm
          /\ UNCHANGED <<scen, kind, seen>>
CInvEnd == /\ Is("cinv.end") /\ Adv /\ FnEnd(Ev.inv) /\ viol' = viol /\ UNCHANGED <<scen, kind, sm, seen>>

\* Custom's maybeValue is over (its deferred cleanup has run): the frame must be finished
CustomEnd ==
  /\ Is("h.custom.end") /\ Adv
  /\ IF fr # <<>> /\ Top.k \in {"custom", "lib"}
     THEN /\ viol' = viol \cup If(Top.stack # <<>>, "cleanup_not_run") \cup If(Top.k = "custom" /\ Top.open, "cleanup_before_return")
          /\ fr' = SubSeq(fr, 1, Len(fr) - 1)
     ELSE /\ viol' = viol /\ fr' = fr
  /\ UNCHANGED <<scen, kind, sm, seen>>

\* Generator.Example(seed) brackets its Custom function calls like an invocation of a property function
ExampleBegin == /\ Is("example.begin") /\ Adv /\ viol' = viol \cup If(fr # <<>>, "invocation_overlap") /\ fr' = <<>> /\ sm' = NoSM
                /\ kind' = "example" /\ seen' = seen \cup {"example"} /\ UNCHANGED scen
ExampleEnd ==
  /\ Is("example.end") /\ Adv
  /\ viol' = viol \cup If(\E i \in 1..Len(fr) : fr[i].stack # <<>> \/ fr[i].running # 0, "cleanup_not_run")
  /\ fr' = <<>> /\ UNCHANGED <<scen, kind, sm, seen>>

OnceEnd ==
  /\ Is("h.once.end") /\ Adv
  /\ viol' = viol \cup If(\E i \in 1..Len(fr) : fr[i].stack # <<>>, "cleanup_not_run")
                  \cup If(\E i \in 1..Len(fr) : fr[i].running # 0, "cleanup_not_run")
  /\ fr' = <<>> /\ sm' = NoSM
  /\ UNCHANGED <<scen, kind, seen>>

\* cleanups registered by the goroutines of one "go" op (grp > 0) are registered concurrently: they have no defined order among themselves
Grp == IF "grp" \in DOMAIN Ev THEN Ev.grp ELSE 0
Reg ==
  /\ Is("cleanup.reg") /\ Adv
  /\ LET i == FrameOf(Ev.inv) IN
     IF i = 0 THEN /\ fr' = fr /\ viol' = viol \cup {"cleanup_after_end"}
     ELSE /\ fr' = [fr EXCEPT ![i].stack = Append(@, [id |-> Ev.id, grp |-> Grp]), ![i].regs = @ + 1] /\ viol' = viol
  /\ UNCHANGED <<scen, kind, sm, seen>>

\* a cleanup function starts: it must be the most recently registered one that has not run,
\* and its invocation's function must have returned
Run ==
  /\ Is("cleanup.run") /\ Adv
  /\ LET i == FrameOf(Ev.inv) IN
     IF i = 0 THEN /\ fr' = fr /\ viol' = viol \cup {"cleanup_after_end"}
     ELSE LET f == fr[i] IN
          /\ LET top == f.stack[Len(f.stack)]
                  lifo == top.id = Ev.id \/ (top.grp # 0 /\ \E j \in 1..Len(f.stack) : f.stack[j].id = Ev.id /\ f.stack[j].grp = top.grp)
             IN viol' = viol \cup If(f.open, "cleanup_before_return")
                          \cup If(f.stack = <<>> \/ Ev.id \in f.ran, "cleanup_run_twice_or_unknown")
                          \cup If(f.stack # <<>> /\ Ev.id \notin f.ran /\ ~lifo, "cleanup_not_lifo")
          /\ fr' = [fr EXCEPT ![i].stack = SelectSeq(f.stack, LAMBDA x : x.id # Ev.id), ![i].ran = f.ran \cup {Ev.id}, ![i].running = Ev.id]
  /\ UNCHANGED <<scen, kind, sm, seen>>

RunEnd ==
  /\ Is("cleanup.end") /\ Adv
  /\ LET i == FrameOf(Ev.inv) IN
     IF i = 0 THEN fr' = fr ELSE fr' = [fr EXCEPT ![i].running = 0]
  /\ viol' = viol /\ UNCHANGED <<scen, kind, sm, seen>>

\* a context is sampled: live while its function runs, cancelled at cleanup time and afterwards
Ctx ==
  /\ Is("ctx") /\ Adv
  /\ LET i == FrameOf(Ev.inv)
         duringCall == i # 0 /\ fr[i].open /\ Ev.where \notin {"at-cleanup", "after"}
         others == UNION { fr[j].ctxs : j \in { k \in 1..Len(fr) : fr[k].id # Ev.inv } }
     IN /\ viol' = viol \cup If(duringCall /\ Ev.err # "nil", "context_dead_during_call")
                        \cup If(~duringCall /\ Ev.where = "at-cleanup" /\ Ev.err = "nil", "context_live_at_cleanup")
                        \cup If(~duringCall /\ Ev.where = "after" /\ Ev.err = "nil", "context_live_after_call")
                        \cup If(~duringCall /\ Ev.where \notin {"at-cleanup", "after"} /\ Ev.err = "nil", "context_live_at_cleanup")
                        \cup If(duringCall /\ Ev.id \in others, "context_shared_between_invocations")
        /\ fr' = IF i = 0 THEN fr ELSE [fr EXCEPT ![i].ctxs = @ \cup {Ev.id}]
  /\ UNCHANGED <<scen, kind, sm, seen>>

\* ---- T.Repeat ---------------------------------------------------------------
SmBegin ==
  /\ Is("sm.begin") /\ Adv
  /\ sm' = [NoSM EXCEPT !.active = TRUE, !.hasInv = Ev.hasinv, !.needInv = Ev.hasinv, !.maxSkips = sm.maxSkips,
                        !.actions = IF "actions" \in DOMAIN Ev THEN { Ev.actions[i] : i \in 1..Len(Ev.actions) } ELSE {"*"},
                        \* (the test case may have failed non-fatally before Repeat is entered: then no action runs at all)
                        !.failed = IF "failedbefore" \in DOMAIN Ev THEN Ev.failedbefore ELSE FALSE,
                        !.pre = IF "failedbefore" \in DOMAIN Ev THEN Ev.failedbefore ELSE FALSE]
  /\ viol' = viol /\ UNCHANGED <<scen, fr, kind, seen>>

SmInvBegin ==
  /\ Is("sm.inv.begin") /\ Adv
  \* (the invariant's first run comes before Repeat looks at the failure flag: it may follow a failure raised before Repeat was entered)
  /\ viol' = viol \cup If(sm.failed /\ ~(sm.pre /\ sm.invRuns = 0 /\ sm.steps = 0), "continued_after_falsification")
                  \cup If(~sm.needInv /\ sm.lastSkipped, "invariant_after_skipped_action")
                  \cup If(~sm.needInv /\ ~sm.lastSkipped, "invariant_not_run_once")
                  \cup If(sm.inAct \/ sm.inInv, "actions_overlap")
  /\ sm' = [sm EXCEPT !.inInv = TRUE, !.needInv = FALSE, !.invRuns = @ + 1]
  /\ UNCHANGED <<scen, fr, kind, seen>>

SmInvEnd ==
  /\ Is("sm.inv.end") /\ Adv
  /\ sm' = [sm EXCEPT !.inInv = FALSE, !.failed = @ \/ ~Ev.ret \/ sm.nf]
  /\ viol' = viol /\ UNCHANGED <<scen, fr, kind, seen>>

SmActBegin ==
  /\ Is("sm.action.begin") /\ Adv
  /\ viol' = viol \cup If(sm.failed, "continued_after_falsification")
                  \cup If(sm.needInv /\ sm.steps = 0, "invariant_not_first")
                  \cup If(sm.needInv /\ sm.steps > 0, "invariant_missing_after_action")
                  \cup If(sm.inAct \/ sm.inInv, "actions_overlap")
                  \* ("instead of looping forever": the code gives up after validActionTries = 100 skipped actions; the number is not part of the
                  \* property -- a machine that really never gives up is caught by the watchdog as `hangs`)
                  \cup If(sm.skips >= 100000, "no_valid_action_not_reported")
                  \cup If("*" \notin sm.actions /\ Ev.name \notin sm.actions, "action_not_supplied")   \* Repeat runs only the supplied actions
  /\ sm' = [sm EXCEPT !.inAct = TRUE, !.actDraws = 0, !.steps = @ + 1]
  /\ UNCHANGED <<scen, fr, kind, seen>>

SmActEnd ==
  /\ Is("sm.action.end") /\ Adv
  /\ LET \* skipped by the action itself, or abandoned inside a draw by a generator that gave up (no call of the action ended it): not a falsification
         skipped == ~Ev.ret /\ Ev.last \in {"skip", ""} /\ ~sm.nf
         ok == Ev.ret /\ ~sm.nf
     IN sm' = [sm EXCEPT !.inAct = FALSE, !.lastSkipped = skipped,
                         !.needInv = IF ok THEN sm.hasInv ELSE FALSE,
                         !.failed = @ \/ (~ok /\ ~skipped),
                         !.completed = IF ok THEN @ + 1 ELSE @,
                         !.skips = IF skipped /\ sm.actDraws = 0 THEN @ + 1 ELSE 0,
                         \* the longest run of actions skipped in place that Repeat has put up with in this scenario (another action was tried next)
                         !.maxSkips = IF skipped /\ sm.actDraws = 0 THEN @ ELSE Max2(@, sm.skips)]
  /\ viol' = viol /\ UNCHANGED <<scen, fr, kind, seen>>

\* Repeat gives up: "can't find a valid (non-skipped) action" (hook).  However many skipped tries it takes (not part of the property), the budget
\* is one per step: it cannot give up after fewer actions skipped in a row than it has put up with before in the same scenario
ActionNone ==
  /\ Is("h.action.none") /\ Adv
  /\ viol' = viol \cup If(sm.active /\ sm.skips <= sm.maxSkips, "gave_up_with_runnable_actions")
  /\ UNCHANGED <<scen, fr, kind, sm, seen>>

\* draws and signals inside an action / invariant
\* Under -rapid.v the TB is told which action key Repeat drew; the action function that then runs (it announces itself with a draw event
\* labelled "action") must be the one supplied under that key
SmKeyLogged ==
  /\ Is("tb.logf") /\ Adv
  /\ sm' = IF sm.active /\ Ev.class = "draw" /\ Ev.label = "action" THEN [sm EXCEPT !.key = Ev.val] ELSE sm
  /\ viol' = viol /\ UNCHANGED <<scen, fr, kind, seen>>
SmDraw ==
  /\ Is("draw") /\ Adv
  /\ sm' = IF sm.inAct /\ Ev.label # "action" THEN [sm EXCEPT !.actDraws = @ + 1]
            ELSE IF Ev.label = "action" THEN [sm EXCEPT !.key = ""] ELSE sm
  /\ viol' = viol \cup If(Ev.label = "action" /\ sm.key # "" /\ sm.key # Ev.val, "action_not_the_drawn_one")
  /\ UNCHANGED <<scen, fr, kind, seen>>
SmCall ==
  /\ Is("call") /\ Adv
  /\ sm' = IF sm.active /\ (sm.inAct \/ sm.inInv) /\ Ev.m \in {"errorf", "error", "fail", "fatalf", "fatal", "failnow", "fatalfc"} THEN [sm EXCEPT !.nf = TRUE] ELSE sm
  /\ viol' = viol /\ UNCHANGED <<scen, fr, kind, seen>>

Overrun == /\ Is("h.overrun") /\ Adv /\ sm' = [sm EXCEPT !.ovr = TRUE] /\ viol' = viol /\ UNCHANGED <<scen, fr, kind, seen>>

\* Repeat's own bookkeeping (hook, logged before the increment): the step count only counts completed actions
RepeatMore ==
  /\ Is("h.repeat.more") /\ Adv
  /\ viol' = viol \cup If(sm.active /\ Ev.label = "Repeat@repeat" /\ ~sm.failed /\ Ev.count # sm.completed, "skipped_action_counted")
  /\ UNCHANGED <<scen, fr, kind, sm, seen>>

SmEnd ==
  /\ Is("sm.end") /\ Adv
  /\ viol' = viol \cup If(Ev.ret /\ sm.needInv /\ sm.steps > 0, "invariant_missing_after_action")
                  \cup If(Ev.ret /\ sm.needInv /\ sm.steps = 0, "invariant_not_first")
                  \cup If(Ev.ret /\ sm.failed, "continued_after_falsification")
  /\ sm' = [sm EXCEPT !.active = FALSE]
  /\ UNCHANGED <<scen, fr, kind, seen>>

Handled == {"h.custom.begin", "hang", "example.begin", "example.end", "scen.begin", "scen.end", "h.phase", "h.once.begin", "inv.begin", "cinv.begin", "inv.end", "cinv.end", "h.custom.end", "h.once.end",
            "cleanup.reg", "cleanup.run", "cleanup.end", "ctx", "sm.begin", "sm.inv.begin", "sm.inv.end", "sm.action.begin", "sm.action.end",
            "draw", "call", "h.repeat.more", "sm.end", "h.overrun", "tb.logf", "h.action.none"}
\* the watchdog saw an invocation still running after 90 s: the library hung
Hang == /\ Is("hang") /\ Adv /\ viol' = viol \cup {"hangs"} /\ UNCHANGED <<scen, fr, kind, sm, seen>>

Other == /\ l <= Len(Trace) /\ Trace[l].ev \notin Handled /\ Adv /\ UNCHANGED <<scen, fr, kind, sm, viol, seen>>

Next == CustomBegin \/ Hang \/ ExampleBegin \/ ExampleEnd \/ ScenBegin \/ ScenEnd \/ Phase \/ OnceBegin \/ InvBegin \/ CInvBegin \/ InvEnd \/ CInvEnd \/ CustomEnd \/ OnceEnd \/ Reg \/ Run \/ RunEnd
        \/ Ctx \/ SmBegin \/ SmInvBegin \/ SmInvEnd \/ SmActBegin \/ SmActEnd \/ SmKeyLogged \/ SmDraw \/ SmCall \/ RepeatMore \/ Overrun \/ SmEnd \/ ActionNone \/ Other

Spec == Init /\ [][Next]_vars

HW == /\ TLCSet(1, IF l > TLCGet(1) THEN l ELSE TLCGet(1))
      /\ TLCSet(2, TLCGet(2) \cup (viol \ Verdicts))
ASSUME TLCSet(1, 0) /\ TLCSet(2, {})
Accepted == /\ PrintT(<<"BINDING_LOST", TLCGet(2)>>)
            /\ IF TLCGet(1) = Len(Trace) + 1 THEN PrintT(<<"TRACE_ACCEPTED", Len(Trace)>>)
               ELSE PrintT(<<"TRACE_REJECTED_AT", TLCGet(1), Trace[TLCGet(1)].ev, Trace[TLCGet(1)].seq>>) /\ FALSE
=============================================================================
