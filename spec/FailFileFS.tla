----------------------------- MODULE FailFileFS -----------------------------
(* Saving a fail file (persist.go saveFailFile) at the level of file-system
   operations, with a process crash possible before every operation and in
   the middle of every write.

   Directory state: name -> [bytes written, complete?]; the final name matches
   the discovery pattern <test>-*.fail, the temporary name does not.
   Design = "code": mkdir, create temp, write chunk by chunk, close, rename.
   Other values are plausible wrong variants (non-vacuity of the invariants):
   "direct" writes to the final name; "tmp_glob" uses a temporary name that
   matches the pattern; "rename_first" renames before the data is complete;
   "small_direct" writes small outputs directly. *)
EXTENDS Integers, Sequences, FiniteSets, TLC

CONSTANTS
  \* @type: Str;
  Design,
  \* @type: Int;
  Chunks        \* number of write operations the content needs

Names == {"final", "tmp", "tmpglob"}
MatchesGlob(n) == n \in {"final", "tmpglob"}

VARIABLES
  \* @type: Str;
  pc,
  \* @type: Str -> Int;
  dir,
  \* @type: Bool;
  crashed,
  \* @type: Str;
  cur
vars == <<pc, dir, crashed, cur>>
\* dir: name -> number of chunks present (or -1 if absent);  a file is complete iff it holds Chunks chunks
Absent == -1

Init == /\ pc = "mkdir" /\ dir = [n \in Names |-> Absent] /\ crashed = FALSE /\ cur = "none"

TmpName == IF Design = "tmp_glob" THEN "tmpglob" ELSE "tmp"
Target == IF Design = "direct" \/ (Design = "small_direct" /\ Chunks <= 1) THEN "final" ELSE TmpName

Mkdir  == /\ pc = "mkdir" /\ pc' = "create" /\ UNCHANGED <<dir, crashed, cur>>
Create == /\ pc = "create" /\ dir' = [dir EXCEPT ![Target] = 0] /\ cur' = Target
          /\ pc' = (IF Design = "rename_first" THEN "rename" ELSE "write") /\ UNCHANGED crashed
Write  == /\ pc = "write" /\ dir[cur] < Chunks
          /\ dir' = [dir EXCEPT ![cur] = @ + 1] /\ UNCHANGED <<pc, crashed, cur>>
WriteDone == /\ pc = "write" /\ dir[cur] = Chunks /\ pc' = "close" /\ UNCHANGED <<dir, crashed, cur>>
Close  == /\ pc = "close" /\ pc' = (IF cur = "final" \/ Design = "rename_first" THEN "done" ELSE "rename") /\ UNCHANGED <<dir, crashed, cur>>
Rename == /\ pc = "rename" /\ cur # "final"
          /\ dir' = [dir EXCEPT !["final"] = dir[cur], ![cur] = Absent]
          /\ cur' = "final"
          /\ pc' = (IF Design = "rename_first" THEN "write" ELSE "done") /\ UNCHANGED crashed
\* the process is killed: nothing more happens (the deferred Remove of the temporary file does not run either)
Crash  == /\ pc # "done" /\ ~crashed /\ crashed' = TRUE /\ pc' = "dead" /\ UNCHANGED <<dir, cur>>

Next == Mkdir \/ Create \/ Write \/ WriteDone \/ Close \/ Rename \/ Crash
Spec == Init /\ [][Next]_vars /\ WF_vars(Mkdir \/ Create \/ Write \/ WriteDone \/ Close \/ Rename)

\* whatever a later run would pick up is complete -- in every state, hence at every crash point
AtomicVisible == \A n \in Names : MatchesGlob(n) /\ dir[n] # Absent => dir[n] = Chunks
\* partial data only under names that are never picked up
TmpDisjoint == \A n \in Names : (dir[n] # Absent /\ dir[n] < Chunks) => ~MatchesGlob(n)
\* an uninterrupted save ends with exactly the complete final file
Saved == pc = "done" => dir["final"] = Chunks /\ dir["tmp"] = Absent /\ dir["tmpglob"] = Absent
Finishes == <>(pc \in {"done", "dead"})
=============================================================================
