SPECIFICATION Spec
CONSTANTS
 Design = "code"
 Tries = 3
 MaxSteps = 6
 HasInv = TRUE
INVARIANTS InvFirst InvAfterCompleted NoInvAfterSkip StopAtFirstFalsification SkippedNotCounted GivesUp
PROPERTY Terminates
CHECK_DEADLOCK FALSE
