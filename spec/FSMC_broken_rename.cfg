SPECIFICATION Spec
CONSTANTS
 Design = "rename_first"
 Chunks = 3
INVARIANTS AtomicVisible TmpDisjoint Saved
PROPERTY Finishes
CHECK_DEADLOCK FALSE
