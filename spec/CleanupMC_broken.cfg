SPECIFICATION Spec
CONSTANTS
 Design = "nodefer"
 MaxCleanups = 4
INVARIANTS ExactlyOnce LIFO CancelledBeforeCleanups LateContextsDead AllCancelledAtEnd CleanForNext
PROPERTY Terminates
CHECK_DEADLOCK FALSE
