SPECIFICATION Spec
CONSTANTS
 Design = "code"
 Chunks = 3
INVARIANTS AtomicVisible TmpDisjoint Saved
PROPERTY Finishes
CHECK_DEADLOCK FALSE
