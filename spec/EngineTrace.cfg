SPECIFICATION Spec
CONSTANTS
  Design = "repaired"
  InvalidMult = 10
  Property = "ALL"
  Less <- TLess
INVARIANT NoVerdictViolation
CONSTRAINT HW
POSTCONDITION Accepted
CHECK_DEADLOCK FALSE
