------------------------------- MODULE Prune -------------------------------
(* recordedBits.prune() and removeGroup() of data.go, transcribed.  A recording
   is [data |-> sequence of words, groups |-> sequence of [begin, end, discard]]
   with 0-based begin, exclusive end (end = -1 for a group still open). *)
EXTENDS Integers, Sequences

\* first index j > i whose group is not nested in group i
RECURSIVE SkipNested(_, _, _)
SkipNested(gs, j, gend) == IF j <= Len(gs) /\ gs[j].end <= gend THEN SkipNested(gs, j + 1, gend) ELSE j

Rebase(gr, gend, n) == [gr EXCEPT !.begin = IF gr.begin >= gend THEN gr.begin - n ELSE gr.begin,
                                  !.end   = IF gr.end >= gend THEN gr.end - n ELSE gr.end]

RemoveGroup(rec, i) ==
  LET g  == rec.groups[i]
      j  == SkipNested(rec.groups, i + 1, g.end)
      n  == g.end - g.begin
      gs == SubSeq(rec.groups, 1, i - 1) \o SubSeq(rec.groups, j, Len(rec.groups))
  IN [data   |-> SubSeq(rec.data, 1, g.begin) \o SubSeq(rec.data, g.end + 1, Len(rec.data)),
      groups |-> [k \in 1..Len(gs) |-> Rebase(gs[k], g.end, n)]]

RECURSIVE PruneFrom(_, _)
PruneFrom(rec, i) == IF i > Len(rec.groups) THEN rec
                     ELSE IF rec.groups[i].discard THEN PruneFrom(RemoveGroup(rec, i), i)
                     ELSE PruneFrom(rec, i + 1)
PruneCode(rec) == PruneFrom(rec, 1)

\* what pruning means: the words not covered by any discarded group, in order
Covered(rec, p) == \E k \in 1..Len(rec.groups) : rec.groups[k].discard /\ rec.groups[k].begin < p /\ p <= rec.groups[k].end
PruneMeaning(rec) == LET keep == { p \in 1..Len(rec.data) : ~Covered(rec, p) }
                         F[p \in 0..Len(rec.data)] == IF p = 0 THEN <<>> ELSE IF p \in keep THEN Append(F[p - 1], rec.data[p]) ELSE F[p - 1]
                     IN F[Len(rec.data)]
=============================================================================
