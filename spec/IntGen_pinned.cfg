CONSTANTS Design = "pinned" MaxW = 4 MaxN = 40
SPECIFICATION Spec
INVARIANTS WidthTableOK InSpan Reach Monotone WidthsGrow SignedOK SignedReach
CHECK_DEADLOCK FALSE
