------------------------------ MODULE RepeatSM ------------------------------
(* Design model of T.Repeat (statemachine.go) with the repeat controller of
   utils.go: invariant once before any action and once after every completed
   action, never after a skipped one; one action at a time; stop at the first
   falsification; a skipped action is not counted; executeAction gives up
   with a failure after Tries consecutive skips without a draw; too many
   rejections force a stop.  The actions' outcomes are nondeterministic.
   Design = "code" | "inv_after_reject" | "no_fail_check" | "count_skipped" |
   "no_giveup" (wrong variants = non-vacuity test). *)
EXTENDS Integers, Sequences, TLC

CONSTANTS Design, Tries, MaxSteps, HasInv

Outcomes == {"ok", "skip0", "skipd", "fatal", "nonfatal"}   \* skip0: skipped before drawing; skipd: after drawing

VARIABLES pc, count, rejections, force, tries, hist, failed, calls

vars == <<pc, count, rejections, force, tries, hist, failed, calls>>

Init == /\ pc = "inv0" /\ count = 0 /\ rejections = 0 /\ force = FALSE /\ tries = 0 /\ hist = <<>> /\ failed = FALSE /\ calls = 0

Log(e) == hist' = Append(hist, e)

\* the invariant ("" action) runs; it may fail
Inv(next) ==
  IF HasInv
  THEN \E r \in {"ok", "fatal", "nonfatal"} :
         /\ Log(<<"inv", r>>)
         /\ IF r = "ok" THEN pc' = next /\ failed' = failed ELSE pc' = "failed" /\ failed' = TRUE
  ELSE /\ hist' = hist /\ pc' = next /\ failed' = failed

Inv0 == /\ pc = "inv0" /\ Inv("more") /\ UNCHANGED <<count, rejections, force, tries, calls>>

\* repeat.more: the coin; a forced stop or the step bound stops
More ==
  /\ pc = "more"
  /\ \/ /\ ~force /\ calls < MaxSteps /\ pc' = "act" /\ count' = count + 1 /\ tries' = 0
     \/ /\ pc' = "stopped" /\ UNCHANGED <<count, tries>>
  /\ UNCHANGED <<rejections, force, hist, failed, calls>>

\* executeAction: one try
Act ==
  /\ pc = "act"
  /\ \E o \in Outcomes :
       /\ Log(<<"act", o>>) /\ calls' = calls + 1
       /\ CASE o = "ok" -> /\ pc' = "invafter" /\ UNCHANGED <<count, rejections, force, tries, failed>>
            [] o = "skip0" -> /\ tries' = tries + 1
                              /\ IF tries + 1 >= Tries /\ Design # "no_giveup"
                                 THEN pc' = "failed" /\ failed' = TRUE /\ Log(<<"act", o>>) /\ UNCHANGED <<count, rejections, force>>
                                 ELSE pc' = "act" /\ UNCHANGED <<count, rejections, force, failed>>
            [] o = "skipd" -> \* invalid after a draw: reject (not counted), then either the invariant (wrong) or the next coin
                              /\ count' = IF Design = "count_skipped" THEN count ELSE count - 1
                              /\ rejections' = rejections + 1
                              /\ force' = (rejections + 1 > (count - 1) * 2)
                              /\ pc' = IF Design = "inv_after_reject" THEN "invafter" ELSE "more"
                              /\ UNCHANGED <<tries, failed>>
            [] o = "fatal" -> /\ pc' = "failed" /\ failed' = TRUE /\ UNCHANGED <<count, rejections, force, tries>>
            [] o = "nonfatal" -> \* the action returned, but runAction's failOnError stops the machine
                                 /\ IF Design = "no_fail_check" THEN pc' = "invafter" /\ failed' = TRUE
                                    ELSE pc' = "failed" /\ failed' = TRUE
                                 /\ UNCHANGED <<count, rejections, force, tries>>

InvAfter == /\ pc = "invafter" /\ Inv("more") /\ UNCHANGED <<count, rejections, force, tries, calls>>

Next == Inv0 \/ More \/ Act \/ InvAfter
Spec == Init /\ [][Next]_vars /\ WF_vars(Next)

---------------------------------------------------------------------------
\* the discipline, as a property of the history
IsAct(e) == e[1] = "act"
IsInv(e) == e[1] = "inv"
Falsifying(e) == e[2] \in {"fatal", "nonfatal"}

InvFirst == HasInv /\ hist # <<>> => IsInv(hist[1])
InvAfterCompleted == HasInv => \A i \in 1..(Len(hist) - 1) : (IsAct(hist[i]) /\ hist[i][2] = "ok") => IsInv(hist[i + 1])
NoInvAfterSkip == \A i \in 1..(Len(hist) - 1) : (IsAct(hist[i]) /\ hist[i][2] \in {"skip0", "skipd"}) => ~IsInv(hist[i + 1])
StopAtFirstFalsification == \A i \in 1..(Len(hist) - 1) : ~Falsifying(hist[i])
SkippedNotCounted == pc \in {"more", "stopped"} => count = Len(SelectSeq(hist, LAMBDA e : IsAct(e) /\ e[2] = "ok"))
GivesUp == \A i \in 1..Len(hist) : ~(\A j \in 0..Tries : i + j <= Len(hist) /\ IsAct(hist[i + j]) /\ hist[i + j][2] = "skip0")
Terminates == <>(pc \in {"stopped", "failed"})
=============================================================================
