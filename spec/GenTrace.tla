------------------------------ MODULE GenTrace ------------------------------
(* Generator contracts (C03), exact minimization boundaries (C12) and
   reachability / edge / freshness observations (C18) on recorded executions.

   Every drawn value is logged with the fields of its generator's documented
   contract; the numeric parts are evaluated here on 64-bit limbs (signed
   integers in offset binary, floats by an order-preserving key), lengths and
   counts as integers, distinctness and permutation as set / bag operations on
   value digests.  Predicates TLC cannot evaluate (valid UTF-8, regexp match,
   membership, dynamic type, filter predicate) are evaluated by the harness
   with the standard library and carried as booleans.  An invocation of a
   property that never signals a failure itself must end passed or invalid:
   anything else is an internal assertion or crash of a generator. *)
EXTENDS Integers, Sequences, FiniteSets, TLC, Json, W64

CONSTANTS Property
Trace == ndJsonDeserialize("trace.ndjson")

VARIABLES l, scen, viol, kind, last, nfinal
vars == <<l, scen, viol, kind, last, nfinal>>

Ev == Trace[l]
Is(e) == l <= Len(Trace) /\ Trace[l].ev = e
Adv == l' = l + 1
If(c, name) == IF c THEN {name} ELSE {}

VerdictOf ==
  [ C03 |-> {"int_out_of_bounds", "float_out_of_bounds", "float_nan", "float_inf_unbounded", "length_out_of_bounds", "keys_not_distinct",
             "element_out_of_contract", "string_limits", "invalid_utf8", "not_a_permutation", "input_modified", "predicate_false",
             "wrong_type", "internal_assertion", "filter_predicate_false", "hangs", "value_modified_after_draw"},
    C12 |-> {"not_minimal_integer", "not_minimal_length", "elements_not_zero", "minimization_lost_failure"},
    C18 |-> {"value_unreachable", "edge_not_hit", "seed_repeated", "cases_repeat", "float_edge_not_hit", "constructor_panicked"} ]
Verdicts == IF Property = "ALL" THEN UNION { VerdictOf[p] : p \in DOMAIN VerdictOf } ELSE VerdictOf[Property]

NoLast == [c |-> "none"]
Init == /\ l = 1 /\ scen = [id |-> ""] /\ viol = {} /\ kind = "none" /\ last = NoLast /\ nfinal = 0

ScenBegin == /\ Is("scen.begin") /\ Adv /\ scen' = Ev /\ viol' = {} /\ kind' = "none" /\ last' = NoLast /\ nfinal' = 0
ScenEnd == /\ Is("scen.end") /\ Adv
           /\ IF viol \cap Verdicts = {} THEN TRUE ELSE PrintT(<<"VIOLATED", scen.id, viol \cap Verdicts, l>>)
           /\ UNCHANGED <<scen, viol, kind, last, nfinal>>

Phase == /\ Is("h.phase") /\ Adv /\ kind' = Ev.kind /\ nfinal' = (IF Ev.kind = "final" THEN 0 ELSE nfinal) /\ UNCHANGED <<scen, viol, last>>

\* ---- C03: the contract of one drawn value ---------------------------------
IsSet(keys) == Cardinality({ keys[i] : i \in 1..Len(keys) }) = Len(keys)
Count(s, x) == Cardinality({ i \in 1..Len(s) : s[i] = x })
SameBag(a, b) == Len(a) = Len(b) /\ \A i \in 1..Len(a) : Count(a, a[i]) = Count(b, a[i])
InLen(n, lo, hi) == (lo < 0 \/ n >= lo) /\ (hi < 0 \/ n <= hi)
Has(f) == f \in DOMAIN Ev

V_Contract ==
  If(Has("typeok") /\ ~Ev.typeok, "wrong_type")
  \* (a value drawn earlier in the test case no longer is what it was when it was drawn)
  \cup If(Ev.c = "kept" /\ ~Ev.ok, "value_modified_after_draw")
  \cup If(Has("filterok") /\ ~Ev.filterok, "filter_predicate_false")
  \cup (CASE Ev.c = "int" -> If(~(LE(Ev.min.l, Ev.v.l) /\ LE(Ev.v.l, Ev.max.l)), "int_out_of_bounds")
          [] Ev.c = "float" ->
               If(Ev.v.class = "nan", "float_nan")
               \cup If(Ev.v.class # "nan" /\ ~(LE(Ev.min.l, Ev.v.l) /\ LE(Ev.v.l, Ev.max.l)), "float_out_of_bounds")
               \cup If(Ev.v.class = "inf" /\ Ev.min.class # "inf" /\ Ev.max.class # "inf", "float_inf_unbounded")
          [] Ev.c = "coll" ->
               If(~InLen(Ev.len, Ev.minLen, Ev.maxLen) \/ Ev.len # Len(Ev.keys), "length_out_of_bounds")
               \cup If(Ev.distinct /\ ~IsSet(Ev.keys), "keys_not_distinct")
               \cup If(~Ev.elemok, "element_out_of_contract")
          [] Ev.c = "str" ->
               If(~InLen(Ev.runes, Ev.minRunes, Ev.maxRunes) \/ (Ev.maxBytes >= 0 /\ Ev.bytes > Ev.maxBytes), "string_limits")
               \cup If(~Ev.utf8, "invalid_utf8")
               \cup If(~Ev.elemok, "element_out_of_contract")
          [] Ev.c = "perm" -> If(~SameBag(Ev.got, Ev.want), "not_a_permutation") \cup If(Ev.input # Ev.want, "input_modified")
          [] Ev.c = "pred" -> If(~Ev.ok, "predicate_false")
          [] OTHER -> {})

Contract ==
  /\ Is("contract") /\ Adv
  /\ viol' = viol \cup V_Contract
  /\ last' = IF kind = "final" /\ nfinal = 0 THEN Ev ELSE last      \* the first draw of the final replay (C12)
  /\ nfinal' = IF kind = "final" THEN nfinal + 1 ELSE nfinal
  /\ UNCHANGED <<scen, kind>>

\* the scripted properties of these scenarios only fail where the scenario says so (C12 thresholds)
OnceEnd ==
  /\ Is("h.once.end") /\ Adv
  /\ viol' = viol \cup If(Ev.err.class = "panic", "internal_assertion")
                  \cup If(Ev.err.class = "stop" /\ ~scen.mayfail, "internal_assertion")
  /\ UNCHANGED <<scen, kind, last, nfinal>>

\* ---- C12: the reported counterexample is the exact boundary -----------------
\* scen: [goal |-> "int", dir |-> "ge"/"le", k |-> word (offset binary for signed kinds), zero |-> word]
\*    or [goal |-> "len", k |-> n, zeros |-> BOOLEAN]
ExpectedInt == IF scen.dir = "ge" THEN (IF LE(scen.k.l, scen.zero.l) THEN scen.zero.l ELSE scen.k.l)
               ELSE (IF LE(scen.zero.l, scen.k.l) THEN scen.zero.l ELSE scen.k.l)
RunEnd ==
  /\ Is("run.end") /\ Adv
  /\ viol' = viol \cup
       (IF "goal" \notin DOMAIN scen \/ ~Ev.failed THEN {}
        ELSE IF last.c = "none" THEN {"minimization_lost_failure"}
        \* the minimizer was still at work when (more than half of) its time budget was used up: what it ended with need not be the boundary
        \* (a loaded machine; reported as a lost binding, never alarmed)
        ELSE IF Ev.shrinkcut THEN {"minimizer_out_of_time"}
        ELSE IF scen.goal = "int" THEN If(last.c # "int" \/ (last.c = "int" /\ last.v.l # ExpectedInt), "not_minimal_integer")
        ELSE IF scen.goal = "len" THEN
               If((last.c = "coll" /\ last.len # scen.k) \/ (last.c = "str" /\ last.runes # scen.k) \/ last.c \notin {"coll", "str"}, "not_minimal_length")
               \cup If(scen.zeros /\ last.c = "coll" /\ ~last.allzero, "elements_not_zero")
        ELSE {})
  /\ UNCHANGED <<scen, kind, last, nfinal>>

\* ---- C18: observations -----------------------------------------------------
Reach == /\ Is("reach") /\ Adv
         /\ viol' = viol \cup If(Ev.missing # <<>>, "value_unreachable")
         /\ UNCHANGED <<scen, kind, last, nfinal>>
Edge == /\ Is("edge") /\ Adv
        /\ viol' = viol \cup If(~Ev.hitMin \/ ~Ev.hitMax \/ (Ev.zeroIn /\ ~Ev.hitZero), IF Ev.float THEN "float_edge_not_hit" ELSE "edge_not_hit")
        /\ UNCHANGED <<scen, kind, last, nfinal>>
Fresh == /\ Is("fresh") /\ Adv
         /\ viol' = viol \cup If(~IsSet(Ev.seeds), "seed_repeated") \cup If(Ev.ncases > 1 /\ Ev.distinctCases < Ev.ncases, "cases_repeat")   \* 64-bit stream fingerprints of the test cases of one run
         /\ UNCHANGED <<scen, kind, last, nfinal>>

\* a constructor called with parameters its documentation allows panicked: not one value of the contract can be produced
GenPanic == /\ Is("genpanic") /\ Adv /\ viol' = viol \cup {"constructor_panicked"} /\ UNCHANGED <<scen, kind, last, nfinal>>

Handled == {"hang", "scen.begin", "scen.end", "h.phase", "contract", "h.once.end", "run.end", "reach", "edge", "fresh", "genpanic"}
\* the watchdog saw an invocation still running after 90 s: the library hung
Hang == /\ Is("hang") /\ Adv /\ viol' = viol \cup {"hangs"} /\ UNCHANGED <<scen, kind, last, nfinal>>

Other == /\ l <= Len(Trace) /\ Trace[l].ev \notin Handled /\ Adv /\ UNCHANGED <<scen, viol, kind, last, nfinal>>
Next == Hang \/ ScenBegin \/ ScenEnd \/ Phase \/ Contract \/ OnceEnd \/ RunEnd \/ Reach \/ Edge \/ Fresh \/ GenPanic \/ Other
Spec == Init /\ [][Next]_vars

HW == /\ TLCSet(1, IF l > TLCGet(1) THEN l ELSE TLCGet(1))
      /\ TLCSet(2, TLCGet(2) \cup (viol \ Verdicts))
ASSUME TLCSet(1, 0) /\ TLCSet(2, {})
Accepted == /\ PrintT(<<"BINDING_LOST", TLCGet(2)>>)
            /\ IF TLCGet(1) = Len(Trace) + 1 THEN PrintT(<<"TRACE_ACCEPTED", Len(Trace)>>)
               ELSE PrintT(<<"TRACE_REJECTED_AT", TLCGet(1), Trace[TLCGet(1)].ev, Trace[TLCGet(1)].seq>>) /\ FALSE
=============================================================================
