------------------------------- MODULE FSTrace -------------------------------
(* C16 on recorded executions.  Two kinds of scenarios:

   mode "strace": the file-system calls the real save issued (recorded with
   strace -f -y: mkdir, open with O_CREAT, write, close, rename, unlink, link,
   truncate and their -at variants), replayed on a model directory  name -> bytes present.  The
   invariant of FailFileFS is evaluated in EVERY state of the trace -- i.e. at
   every point at which the process could have been killed between two calls:
   a name the discovery pattern matches never holds partial content.

   mode "crash": the child was really killed on entry to its k-th file-system
   step; the directory read back afterwards must show, under every name that
   matches the pattern, exactly the content of the uninterrupted save. *)
EXTENDS Integers, Sequences, FiniteSets, TLC, Json

CONSTANTS Property
Trace == ndJsonDeserialize("trace.ndjson")

VARIABLES l, scen, viol, dir, ref, shape, ref2
vars == <<l, scen, viol, dir, ref, shape, ref2>>

Ev == Trace[l]
Is(e) == l <= Len(Trace) /\ Trace[l].ev = e
Adv == l' = l + 1
If(c, name) == IF c THEN {name} ELSE {}

VerdictOf == [ C16 |-> {"partial_file_visible", "tmp_name_picked_up", "reference_not_saved", "not_saved", "save_differs_from_reference"} ]
Verdicts == IF Property = "ALL" THEN UNION { VerdictOf[p] : p \in DOMAIN VerdictOf } ELSE VerdictOf[Property]

Init == /\ l = 1 /\ scen = [id |-> ""] /\ viol = {} /\ dir = [p \in {} |-> 0] /\ ref = "" /\ shape = "mkdir" /\ ref2 = ""

ScenBegin == /\ Is("scen.begin") /\ Adv /\ scen' = Ev /\ viol' = {} /\ dir' = [p \in {} |-> 0] /\ ref' = "" /\ shape' = "mkdir" /\ ref2' = ""
ScenEnd == /\ Is("scen.end") /\ Adv
           /\ IF viol \cap Verdicts = {} THEN TRUE ELSE PrintT(<<"VIOLATED", scen.id, viol \cap Verdicts, l>>)
           /\ UNCHANGED <<scen, viol, dir, ref, shape, ref2>>

\* ---- strace mode -----------------------------------------------------------
\* the invariant of FailFileFS on the model directory: picked-up names hold complete content
Partial(d) == \E p \in DOMAIN d : d[p].glob /\ d[p].size # scen.finalSize
Put(d, p, v) == [x \in DOMAIN d \cup {p} |-> IF x = p THEN v ELSE d[x]]
Del(d, p) == [x \in DOMAIN d \ {p} |-> d[x]]

\* binding: the protocol of the design model (mkdir* create write+ close rename)
NextShape(op) ==
  CASE op = "mkdir" /\ shape = "mkdir" -> "mkdir"
    [] op = "create" /\ shape = "mkdir" -> "write"
    [] op = "write" /\ shape = "write" -> "write"
    [] op = "close" /\ shape = "write" -> "closed"
    [] op = "rename" /\ shape = "closed" -> "renamed"
    [] op = "unlink" /\ shape = "renamed" -> "renamed"
    [] op = "close" /\ shape \in {"closed", "renamed"} -> shape
    [] OTHER -> "off-protocol"

Sys ==
  /\ Is("sys") /\ Adv
  /\ LET op == Ev.op
         d2 == CASE op = "create" -> Put(dir, Ev.path, [size |-> 0, glob |-> Ev.glob])
                 [] op = "write" /\ Ev.path \in DOMAIN dir -> Put(dir, Ev.path, [dir[Ev.path] EXCEPT !.size = @ + Ev.n])
                 [] op = "truncate" /\ Ev.path \in DOMAIN dir -> Put(dir, Ev.path, [dir[Ev.path] EXCEPT !.size = Ev.n])
                 [] op \in {"rename", "link"} /\ Ev.path \in DOMAIN dir ->
                      LET moved == Put(dir, Ev.to, [size |-> dir[Ev.path].size, glob |-> Ev.toglob])
                      IN IF op = "rename" THEN Del(moved, Ev.path) ELSE moved
                 [] op = "unlink" /\ Ev.path \in DOMAIN dir -> Del(dir, Ev.path)
                 [] OTHER -> dir
     IN /\ dir' = d2
        /\ viol' = viol \cup If(Partial(d2), "partial_file_visible")
                        \cup If(NextShape(op) = "off-protocol", "protocol_shape")
        /\ shape' = NextShape(op)
  /\ UNCHANGED <<scen, ref, ref2>>

SysEnd ==
  /\ Is("sys.end") /\ Adv
  /\ viol' = viol \cup If(~\E p \in DOMAIN dir : dir[p].glob, "not_saved")
                  \cup If(\E p \in DOMAIN dir : ~dir[p].glob, "tmp_left_behind")
  /\ UNCHANGED <<scen, dir, ref, shape, ref2>>

\* ---- crash mode ------------------------------------------------------------
Globbed(files) == { files[i] : i \in { j \in 1..Len(files) : files[j].glob } }
CrashRef ==
  /\ Is("crash.ref") /\ Adv
  /\ LET gs == Globbed(Ev.files) IN
     /\ viol' = viol \cup If(Cardinality(gs) # 1 \/ \E f \in gs : ~f.ok, "reference_not_saved")
     /\ ref' = IF gs = {} THEN "" ELSE (CHOOSE f \in gs : TRUE).ndigest
  /\ UNCHANGED <<scen, dir, shape, ref2>>

CrashRun ==
  /\ Is("crash.run") /\ Adv
  /\ LET gs == Globbed(Ev.files) IN
     viol' = viol \cup If(\E f \in gs : ~f.ok \/ f.ndigest # ref, "partial_file_visible")
                  \cup If(\E f \in gs : f.tmp, "tmp_name_picked_up")
                  \cup If(~Ev.killed /\ (Cardinality(gs) # 1 \/ \E f \in gs : f.ndigest # ref), "save_differs_from_reference")
  /\ UNCHANGED <<scen, dir, ref, shape, ref2>>

\* a later uninterrupted (smaller) save into the directory a killed save left behind: whatever is picked up afterwards is a
\* complete file of one of the two saves -- leftovers of the killed run must not leak into the new file
CrashRef2 ==
  /\ Is("crash.ref2") /\ Adv
  /\ LET gs == Globbed(Ev.files) IN ref2' = IF gs = {} THEN "" ELSE (CHOOSE f \in gs : TRUE).ndigest
  /\ UNCHANGED <<scen, viol, dir, ref, shape>>
CrashResave ==
  /\ Is("crash.resave") /\ Adv
  /\ LET gs == Globbed(Ev.files) IN
     viol' = viol \cup If(\E f \in gs : ~f.ok \/ f.ndigest \notin {ref, ref2}, "partial_file_visible")
                  \* (if the killed run had already completed its file, the later run replays that one and saves nothing new)
                  \cup If(~\E f \in gs : f.ndigest \in {ref, ref2}, "save_differs_from_reference")
  /\ UNCHANGED <<scen, dir, ref, shape, ref2>>

\* two checks whose names map to the same fail-file name saved at the same time: whatever can be picked up afterwards is the complete
\* file of one of them (Ev.refs: the two files as written by each check alone)
CrashConc ==
  /\ Is("crash.conc") /\ Adv
  /\ LET gs == Globbed(Ev.files)
         R == { Ev.refs[i] : i \in 1..Len(Ev.refs) }
     IN viol' = viol \cup If(\E f \in gs : ~f.ok \/ f.ndigest \notin R, "partial_file_visible")
                     \cup If(gs = {}, "not_saved")
  /\ UNCHANGED <<scen, dir, ref, shape, ref2>>

Handled == {"scen.begin", "scen.end", "sys", "sys.end", "crash.ref", "crash.run", "crash.ref2", "crash.resave", "crash.conc"}
Other == /\ l <= Len(Trace) /\ Trace[l].ev \notin Handled /\ Adv /\ UNCHANGED <<scen, viol, dir, ref, shape, ref2>>
Next == ScenBegin \/ ScenEnd \/ Sys \/ SysEnd \/ CrashRef \/ CrashRun \/ CrashRef2 \/ CrashResave \/ CrashConc \/ Other
Spec == Init /\ [][Next]_vars

HW == /\ TLCSet(1, IF l > TLCGet(1) THEN l ELSE TLCGet(1))
      /\ TLCSet(2, TLCGet(2) \cup (viol \ Verdicts))
ASSUME TLCSet(1, 0) /\ TLCSet(2, {})
Accepted == /\ PrintT(<<"BINDING_LOST", TLCGet(2)>>)
            /\ IF TLCGet(1) = Len(Trace) + 1 THEN PrintT(<<"TRACE_ACCEPTED", Len(Trace)>>)
               ELSE PrintT(<<"TRACE_REJECTED_AT", TLCGet(1), Trace[TLCGet(1)].ev, Trace[TLCGet(1)].seq>>) /\ FALSE
=============================================================================
