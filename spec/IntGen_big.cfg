CONSTANTS Design = "repaired" MaxW = 5 MaxN = 40
SPECIFICATION Spec
INVARIANTS WidthTableOK InSpan Reach Monotone WidthsGrow SignedOK SignedReach
CHECK_DEADLOCK FALSE
