------------------------------- MODULE Stream -------------------------------
(* Design model of drawing from a bit stream with recording, groups, pruning
   and replay (data.go, utils.go repeat): a distinct-collection generator
   (rejection of duplicates, forced stop after too many rejections) followed
   by nothing else, driven by every buffer over a small word alphabet.
   A word is a coin (continue iff >= T) or an element (w % E).  After the run
   the recording is pruned (discarded groups removed) and replayed, and the
   unpruned recording is replayed too.
   Design = "repaired": the code as it is (a forced stop keeps flipping,
   discarding the flips, until the coin stops by itself);
   Design = "pinned": before fix ef85be1 (the stop coin was not consulted). *)
EXTENDS Integers, Sequences, TLC, FiniteSets
CONSTANTS Design, W, T, E, MinC, MaxC, L
\* word w as coin: continue iff w >= T ; as element: w % E
VARIABLES buf, pos, phase, pc, count, rej, force, seen, out, data, groups, gopen, rejected, first, asrec
vars == <<buf, pos, phase, pc, count, rej, force, seen, out, data, groups, gopen, rejected, first, asrec>>

Bufs == UNION { [1..n -> 0..(W-1)] : n \in 0..L }

Reset(b, ph, f) ==
  /\ buf' = b /\ pos' = 1 /\ phase' = ph /\ pc' = "more" /\ count' = 0 /\ rej' = 0
  /\ force' = FALSE /\ seen' = {} /\ out' = <<>> /\ data' = <<>> /\ groups' = <<>>
  /\ gopen' = 0 /\ rejected' = FALSE /\ first' = f

Init == \E b \in Bufs :
  /\ buf = b /\ pos = 1 /\ phase = "run" /\ pc = "more" /\ count = 0 /\ rej = 0
  /\ force = FALSE /\ seen = {} /\ out = <<>> /\ data = <<>> /\ groups = <<>>
  /\ gopen = 0 /\ rejected = FALSE /\ first = <<>> /\ asrec = <<>>

HasWord == pos <= Len(buf)
Word == buf[pos]

\* close the currently open repeat group (if any) with the given discard flag
Closed(disc) == IF gopen = 0 THEN groups
                ELSE Append(groups, [b |-> gopen, e |-> Len(data) + 1, d |-> disc])

\* repeat.more : closes previous group, opens a new one, flips the coin
More ==
  /\ pc = "more"
  /\ IF ~HasWord THEN /\ pc' = "invalid" /\ UNCHANGED <<buf,pos,phase,count,rej,force,seen,out,data,groups,gopen,rejected,first>>
     ELSE
      LET forcedCont == count < MinC
          forcedStop == count >= MaxC \/ (Design = "pinned" /\ force)
          natural    == Word >= T
          cont       == IF forcedCont THEN TRUE ELSE IF forcedStop THEN FALSE ELSE natural
          g0         == Closed(rejected)
          newdata    == Append(data, Word)
      IN
      IF Design = "repaired" /\ force /\ ~forcedCont /\ ~forcedStop /\ natural
      THEN \* forced stop, coin says continue: discard this coin group and redraw
           /\ groups' = Append(g0, [b |-> Len(data) + 1, e |-> Len(data) + 2, d |-> TRUE])
           /\ data' = newdata /\ pos' = pos + 1 /\ gopen' = 0 /\ rejected' = FALSE
           /\ UNCHANGED <<buf,phase,pc,count,rej,force,seen,out,first>>
      ELSE IF Design = "repaired" /\ force /\ ~forcedCont /\ ~forcedStop
      THEN \* natural stop under force
           /\ groups' = Append(g0, [b |-> Len(data) + 1, e |-> Len(data) + 2, d |-> FALSE])
           /\ data' = newdata /\ pos' = pos + 1 /\ gopen' = 0 /\ rejected' = FALSE
           /\ pc' = "done"
           /\ UNCHANGED <<buf,phase,count,rej,force,seen,out,first>>
      ELSE
           /\ data' = newdata /\ pos' = pos + 1 /\ rejected' = FALSE
           /\ IF cont
              THEN /\ count' = count + 1 /\ groups' = g0 /\ gopen' = Len(data) + 1 /\ pc' = "elem"
              ELSE /\ count' = count
                   /\ groups' = Append(g0, [b |-> Len(data) + 1, e |-> Len(data) + 2, d |-> FALSE])
                   /\ gopen' = 0 /\ pc' = "done"
           /\ UNCHANGED <<buf,phase,rej,force,seen,out,first>>

Elem ==
  /\ pc = "elem"
  /\ IF ~HasWord THEN /\ pc' = "invalid" /\ UNCHANGED <<buf,pos,phase,count,rej,force,seen,out,data,groups,gopen,rejected,first>>
     ELSE LET e == Word % E IN
      /\ data' = Append(data, Word) /\ pos' = pos + 1
      /\ IF e \in seen
         THEN \* reject
              /\ count' = count - 1 /\ rej' = rej + 1 /\ rejected' = TRUE
              /\ IF rej + 1 > (count - 1) * 2
                 THEN IF count - 1 >= MinC THEN /\ force' = TRUE /\ pc' = "more"
                                           ELSE /\ force' = force /\ pc' = "invalid"
                 ELSE /\ force' = force /\ pc' = "more"
              /\ UNCHANGED <<seen, out>>
         ELSE /\ seen' = seen \cup {e} /\ out' = Append(out, e) /\ pc' = "more"
              /\ UNCHANGED <<count, rej, force, rejected>>
      /\ UNCHANGED <<buf, phase, groups, gopen, first>>

\* prune: drop words covered by discarded groups
Covered(i) == \E k \in 1..Len(groups) : groups[k].d /\ groups[k].b <= i /\ i < groups[k].e
Pruned == LET keep == { i \in 1..Len(data) : ~Covered(i) }
              F[i \in 0..Len(data)] == IF i = 0 THEN <<>> ELSE IF i \in keep THEN Append(F[i-1], data[i]) ELSE F[i-1]
          IN F[Len(data)]

\* after the run: replay the pruned recording, then the recording as it was
Finish ==
  \/ /\ pc = "done" /\ phase = "run" /\ asrec' = data /\ Reset(Pruned, "replay", out)
  \/ /\ pc = "done" /\ phase = "replay" /\ asrec' = asrec /\ Reset(asrec, "replay2", first)

Next == (More /\ asrec' = asrec) \/ (Elem /\ asrec' = asrec) \/ Finish
Spec == Init /\ [][Next]_vars

\* C04: the pruned recording replays to the same value, validly
ReplayPruned == (phase = "replay" /\ pc \in {"done","invalid"}) => (pc = "done" /\ out = first)
ReplayAsRecorded == (phase = "replay2" /\ pc \in {"done","invalid"}) => (pc = "done" /\ out = first)
\* the recording of a run is the prefix of the buffer it consumed
RecordsWhatItRead == phase = "run" => data = SubSeq(buf, 1, pos - 1)
\* C03 skeleton: contract of a finished run
Contract == pc = "done" => /\ Len(out) >= MinC /\ Len(out) <= MaxC
                           /\ Cardinality({out[i] : i \in 1..Len(out)}) = Len(out)
NoForce == ~force
NoReplayInvalid == ~(phase = "replay" /\ pc = "invalid")
=============================================================================
