---- MODULE W64Limbs ----
EXTENDS Integers, Sequences, TLC, Json
\* 64-bit words as 4 limbs of 16 bits, most significant first
LE4(a, b) == \/ a[1] < b[1]
             \/ a[1] = b[1] /\ ( \/ a[2] < b[2]
                                 \/ a[2] = b[2] /\ ( \/ a[3] < b[3]
                                                     \/ a[3] = b[3] /\ a[4] <= b[4]))
RECURSIVE Pow2(_)
Pow2(n) == IF n = 0 THEN 1 ELSE 2 * Pow2(n - 1)
\* mask word to its low n bits (n in 0..64; n > 64 keeps everything)
MaskLimb(x, k) == IF k >= 16 THEN x ELSE IF k <= 0 THEN 0 ELSE x % Pow2(k)
MaskN(a, n) == << MaskLimb(a[1], n - 48), MaskLimb(a[2], n - 32), MaskLimb(a[3], n - 16), MaskLimb(a[4], n) >>
\* little-endian bytes (8, zero padded) to limbs
FromBytes(b) == << b[7] + 256 * b[8], b[5] + 256 * b[6], b[3] + 256 * b[4], b[1] + 256 * b[2] >>
Trace == ndJsonDeserialize("trace.ndjson")
VARIABLES l, ok
Init == l = 1 /\ ok = TRUE
Next == /\ l <= Len(Trace) /\ l' = l + 1
        /\ LET e == Trace[l] IN
           ok' = /\ LE4(e.min, e.v) /\ LE4(e.v, e.max)
                 /\ MaskN(e.raw, e.n) = e.u
                 /\ FromBytes(e.bytes) = e.raw
Spec == Init /\ [][Next]_<<l, ok>>
Inv == ok
HW == TLCSet(1, IF l > TLCGet(1) THEN l ELSE TLCGet(1))
ASSUME TLCSet(1, 0)
Accepted == TLCGet(1) = Len(Trace) + 1
====
