---- MODULE TV ----
EXTENDS Integers, Sequences, TLC, Json
Trace == ndJsonDeserialize("trace.ndjson")
VARIABLES l, tid, st, stack
vars == <<l, tid, st, stack>>
Init == l = 1 /\ tid = 0 /\ st = "idle" /\ stack = <<>>
Ev(e) == l <= Len(Trace) /\ Trace[l].ev = e /\ l' = l + 1
Reset  == Ev("reset") /\ tid' = Trace[l].tid /\ st' = "idle" /\ stack' = <<>>
Begin  == Ev("begin") /\ st = "idle" /\ st' = "in" /\ UNCHANGED <<tid, stack>>
Reg    == Ev("reg") /\ st = "in" /\ stack' = Append(stack, Trace[l].id) /\ UNCHANGED <<tid, st>>
Ret    == Ev("ret") /\ st = "in" /\ st' = "cleaning" /\ UNCHANGED <<tid, stack>>
Pop    == Ev("run") /\ st = "cleaning" /\ stack # <<>> /\ Trace[l].id = stack[Len(stack)]
          /\ stack' = SubSeq(stack, 1, Len(stack) - 1) /\ UNCHANGED <<tid, st>>
End    == Ev("end") /\ st = "cleaning" /\ stack = <<>> /\ st' = "idle" /\ UNCHANGED <<tid, stack>>
Next == Reset \/ Begin \/ Reg \/ Ret \/ Pop \/ End
Spec == Init /\ [][Next]_vars
HW == TLCSet(1, IF l > TLCGet(1) THEN l ELSE TLCGet(1))
Constr == HW
ASSUME TLCSet(1, 0)
Accepted == IF TLCGet(1) = Len(Trace) + 1 THEN TRUE
            ELSE PrintT(<<"REJECTED at line", TLCGet(1), Trace[TLCGet(1)]>>) /\ FALSE
====
