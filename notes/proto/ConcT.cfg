CONSTANTS Workers = {1,2} Ops = {"errorf","context","cleanup","failed"} LockFail = FALSE
SPECIFICATION Spec
INVARIANTS NoRace NoLostFailure OneContext AllCancelled
CHECK_DEADLOCK FALSE
