---- MODULE ConcT ----
(* design-phase prototype: rapid.T's non-drawing methods at lock granularity.
   Workers call one op each, concurrently with each other and with the test
   goroutine, which then joins them, checks the failure flag and runs cleanup(). *)
EXTENDS Integers, Sequences, FiniteSets, TLC
CONSTANTS Workers, Ops, LockFail   \* LockFail = FALSE models the mutant "fail() without t.mu"
Main == 0
Procs == Workers \cup {Main}

(* --algorithm conc
variables
  writer = -1, readers = {},            \* t.mu
  ctx = 0, nextCtx = 1, cancelled = {}, \* t.ctx (0 = nil), contexts cancelled so far
  cleaning = FALSE,                     \* atomic
  failed = FALSE,
  cleanups = <<>>, ran = <<>>,
  acc = [v \in {"ctx","failed","cleanups"} |-> {}],   \* in-flight accesses <<proc, mode>>
  op = [w \in Workers |-> "none"],
  got = [p \in Procs |-> 0],            \* context returned to p
  signalled = FALSE,                    \* some goroutine called Errorf
  done = {}, verdictFailed = FALSE;

define
  Conflict(v) == \E a, b \in acc[v] : a[1] # b[1] /\ ("w" \in {a[2], b[2]})
  NoRace == \A v \in DOMAIN acc : ~Conflict(v)
  Finished == \A p \in Procs : pc[p] = "Done"
  NoLostFailure == Finished => (signalled => verdictFailed)
  OneContext == \A p, q \in Workers : (got[p] # 0 /\ got[q] # 0) => got[p] = got[q]
  CleanupOnce == Finished => (Len(ran) = Len(cleanups) + Len(ran) - Len(ran) /\ \A i \in 1..Len(ran) : \A j \in 1..Len(ran) : ran[i] = ran[j] => i = j)
  AllCancelled == Finished => \A p \in Workers : got[p] # 0 => got[p] \in cancelled
end define;

macro RLock() begin await writer = -1; readers := readers \cup {self}; end macro;
macro RUnlock() begin readers := readers \ {self}; end macro;
macro Lock() begin await writer = -1 /\ readers = {}; writer := self; end macro;
macro Unlock() begin writer := -1; end macro;
macro Begin(v, m) begin acc[v] := acc[v] \cup {<<self, m>>}; end macro;
macro End(v, m) begin acc[v] := acc[v] \ {<<self, m>>}; end macro;

procedure Errorf() begin
  f1: if LockFail then Lock(); end if;
  f2: Begin("failed", "w");
  f3: failed := TRUE; signalled := TRUE; End("failed", "w");
  f4: if LockFail then Unlock(); end if;
  return;
end procedure;

procedure Context() variable c = 0; begin
  c1: RLock();
  c2: Begin("ctx", "r");
  c3: c := ctx; End("ctx", "r");
  c4: RUnlock();
  c5: if c # 0 then got[self] := c; return; end if;
  c6: if cleaning then got[self] := -1; return; end if;
  c7: Lock();
  c8: Begin("ctx", "r");
  c9: c := ctx; End("ctx", "r");
  c10: if c = 0 then
         Begin("ctx", "w");
  c11:   ctx := nextCtx; c := nextCtx; nextCtx := nextCtx + 1; End("ctx", "w");
       end if;
  c12: got[self] := c; Unlock();
  return;
end procedure;

procedure Cleanup() begin
  k1: Lock();
  k2: Begin("cleanups", "w");
  k3: cleanups := Append(cleanups, self); End("cleanups", "w");
  k4: Unlock();
  return;
end procedure;

procedure FailedQ() begin
  q1: RLock();
  q2: Begin("failed", "r");
  q3: End("failed", "r");
  q4: RUnlock();
  return;
end procedure;

fair process w \in Workers begin
  pick: with o \in Ops do op[self] := o; end with;
  run:  if op[self] = "errorf" then call Errorf();
        elsif op[self] = "context" then call Context();
        elsif op[self] = "cleanup" then call Cleanup();
        else call FailedQ(); end if;
  fin:  done := done \cup {self};
end process;

fair process main \in {Main} begin
  m0: call Context();
  join: await done = Workers;
  \* failOnError
  e1: RLock();
  e2: Begin("failed", "r");
  e3: verdictFailed := failed; End("failed", "r");
  e4: RUnlock();
  \* cleanup(): cancel context, then pop-and-run
  u0: cleaning := TRUE;
  u1: Lock();
  u2: Begin("ctx", "w");
  u3: if ctx # 0 then cancelled := cancelled \cup {ctx}; ctx := 0; end if; End("ctx", "w");
  u4: Unlock();
  loop: while TRUE do
    p1: Lock();
    p2: Begin("cleanups", "w");
    p3: if Len(cleanups) > 0 then
          ran := Append(ran, cleanups[Len(cleanups)]);
          cleanups := SubSeq(cleanups, 1, Len(cleanups) - 1);
          End("cleanups", "w");
        else
          End("cleanups", "w");
          goto u9;
        end if;
    p4: Unlock();
  end while;
  u9: Unlock(); cleaning := FALSE;
end process;
end algorithm; *)
 
 
====
