---- MODULE WidthTable ----
\* design-phase prototype: which span bit lengths can never be drawn at full width
\* by genUintNBiased (utils.go).  tlc with Design = "pinned" prints {56, 60, 61, 62, 63, 64}.
EXTENDS Integers, TLC, FiniteSets
CONSTANT Design
Max(a,b) == IF a > b THEN a ELSE b
IntM(b) == Max(8, (b + 48) \div 7)
Thr(b) == 64 - (16 - IntM(b)) * 4
Width(b, n) == IF n < b THEN n
               ELSE IF Design = "pinned"
                    THEN (IF n >= Thr(b) THEN 65 ELSE b)
                    ELSE (IF n > b /\ n >= Thr(b) THEN 65 ELSE b)
FullReachable(b) == \E n \in 1..200 : Width(b, n) = b
Holes == { b \in 1..64 : ~FullReachable(b) }
ASSUME PrintT(<<"holes", Design, Holes>>)
VARIABLE x
Init == x = 0
Next == UNCHANGED x
====
