SPECIFICATION Spec
INVARIANT Inv
CONSTRAINT HW
POSTCONDITION Accepted
CHECK_DEADLOCK FALSE
