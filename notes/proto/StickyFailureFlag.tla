---- MODULE StickyFailureFlag ----
(* design-phase prototype: the sticky non-fatal failure flag (C02, C11).
   A test case is a short script over T's API; findBug reuses one T for all cases. *)
EXTENDS Integers, Sequences, TLC
CONSTANTS Design, N
Scripts == { <<"pass">>, <<"errorf","pass">>, <<"errorf","skip">>, <<"skip">>,
             <<"regErrCleanup","pass">>, <<"fatal">>, <<"regErrCleanup","skip">> }
Signals(s) == \E i \in 1..Len(s) : s[i] \in {"errorf","fatal","regErrCleanup"}
VARIABLES cases, i, pcx, k, failed, pendingCleanupErr, outcome, blamed, done
vars == <<cases, i, pcx, k, failed, pendingCleanupErr, outcome, blamed, done>>
Init == /\ cases \in UNION { [1..n -> Scripts] : n \in 1..N }
        /\ i = 1 /\ pcx = "body" /\ k = 1 /\ failed = FALSE /\ pendingCleanupErr = FALSE
        /\ outcome = <<>> /\ blamed = 0 /\ done = FALSE
Cur == cases[i]
\* one T-API call of the property body
Body ==
  /\ ~done /\ pcx = "body"
  /\ LET op == Cur[k] IN
     CASE op = "errorf" -> /\ failed' = TRUE /\ k' = k + 1 /\ UNCHANGED <<pcx, pendingCleanupErr>>
       [] op = "regErrCleanup" -> /\ pendingCleanupErr' = TRUE /\ k' = k + 1 /\ UNCHANGED <<pcx, failed>>
       [] op = "fatal" -> /\ failed' = TRUE /\ pcx' = "cleanup_fatal" /\ UNCHANGED <<k, pendingCleanupErr>>
       [] op = "skip"  -> /\ pcx' = "cleanup_skip" /\ UNCHANGED <<k, failed, pendingCleanupErr>>
       [] op = "pass"  -> \* property returned: pinned consults the flag here, before cleanup
            /\ pcx' = IF Design = "pinned" /\ failed THEN "cleanup_nonfatal" ELSE "cleanup_pass"
            /\ UNCHANGED <<k, failed, pendingCleanupErr>>
  /\ UNCHANGED <<cases, i, outcome, blamed, done>>
\* t.cleanup(): runs the registered cleanup, which may call Errorf
Cleanup ==
  /\ ~done /\ pcx \in {"cleanup_pass","cleanup_skip","cleanup_fatal","cleanup_nonfatal"}
  /\ failed' = (failed \/ pendingCleanupErr) /\ pendingCleanupErr' = FALSE
  /\ pcx' = CASE pcx = "cleanup_pass" -> "end_pass" [] pcx = "cleanup_skip" -> "end_skip"
              [] pcx = "cleanup_fatal" -> "end_fail" [] OTHER -> "end_fail"
  /\ UNCHANGED <<cases, i, k, outcome, blamed, done>>
\* checkOnce returns; findBug classifies
End ==
  /\ ~done /\ pcx \in {"end_pass","end_skip","end_fail"}
  /\ LET res == IF Design = "repaired" /\ failed THEN "fail"
                ELSE CASE pcx = "end_pass" -> "pass" [] pcx = "end_skip" -> "skip" [] OTHER -> "fail"
     IN /\ outcome' = Append(outcome, res)
        /\ failed' = IF Design = "repaired" THEN FALSE ELSE failed
        /\ IF res = "fail" THEN /\ blamed' = i /\ done' = TRUE /\ UNCHANGED i
           ELSE /\ blamed' = blamed /\ done' = (i = Len(cases)) /\ i' = IF i = Len(cases) THEN i ELSE i + 1
  /\ pcx' = "body" /\ k' = 1 /\ UNCHANGED <<cases, pendingCleanupErr>>
Next == Body \/ Cleanup \/ End
Spec == Init /\ [][Next]_vars
\* C11: the blamed case really signalled a failure
Blamed == blamed # 0 => Signals(cases[blamed])
\* C02: a case that signalled is never recorded as pass/skip
NoLost == \A j \in 1..Len(outcome) : Signals(cases[j]) => outcome[j] = "fail"
====
