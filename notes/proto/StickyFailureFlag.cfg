CONSTANTS Design = "repaired" N = 3
SPECIFICATION Spec
INVARIANTS Blamed NoLost
CHECK_DEADLOCK FALSE
