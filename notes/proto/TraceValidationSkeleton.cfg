SPECIFICATION Spec
CONSTRAINT Constr
POSTCONDITION Accepted
CHECK_DEADLOCK FALSE
