CONSTANTS Design = "repaired" W = 3 T = 1 E = 2 MinC = 0 MaxC = 5 L = 10
SPECIFICATION Spec
INVARIANTS ReplayPruned Contract
CHECK_DEADLOCK FALSE
